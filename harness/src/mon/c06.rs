//! C06 Serde formats round-trip protocol types and consensus parameters.
//!
//! Every generated value goes through `serde_json`, `postcard` and `bincode`:
//! `from(to(v)) == v`, and for the two binary formats `to(from(to(v)))` is byte-for-byte
//! `to(v)`. Upgrade part: `Transaction::upgrade_consensus_parameters` must commit to
//! SHA-256 (computed with `sha2`) of `postcard(params)` and `UpgradeMetadata::compute` must
//! give back exactly `params`.
use crate::{
    Cfg,
    Report,
    Rng,
    gen_tx::{
        self as g,
        FreeOpts,
    },
    guarded,
    hx,
    par,
    unhx,
};
use fuel_tx::{
    Blob,
    ConsensusParameters,
    ContractParameters,
    Create,
    DependentCost,
    FeeParameters,
    GasCosts,
    GasCostsValues,
    Input,
    Mint,
    Output,
    PredicateParameters,
    Receipt,
    Script,
    ScriptParameters,
    StorageSlot,
    Transaction,
    TxParameters,
    TxPointer,
    Upgrade,
    UpgradeMetadata,
    UpgradePurpose,
    Upload,
    UtxoId,
    ValidityError,
    Witness,
    field::{
        Policies as _,
        UpgradePurpose as _,
        Witnesses as _,
    },
    policies::{
        Policies,
        PolicyType,
    },
};
use serde::{
    Serialize,
    de::DeserializeOwned,
};
use serde_json::{
    Value,
    json,
};
use sha2::{
    Digest,
    Sha256,
};
use std::fmt::Debug;

#[path = "c06_params.rs"]
pub mod params;
use params::{
    Fill,
    Filler,
};

#[derive(Clone, Copy, Debug, PartialEq, Eq)]
pub enum Fmt {
    Json,
    Postcard,
    Bincode,
}

pub const FORMATS: [Fmt; 3] = [Fmt::Json, Fmt::Postcard, Fmt::Bincode];

impl Fmt {
    pub fn name(self) -> &'static str {
        match self {
            Fmt::Json => "json",
            Fmt::Postcard => "postcard",
            Fmt::Bincode => "bincode",
        }
    }

    fn from_name(s: &str) -> Option<Fmt> {
        FORMATS.iter().copied().find(|f| f.name() == s)
    }

    fn ser<T: Serialize>(self, v: &T) -> Result<Vec<u8>, String> {
        match self {
            Fmt::Json => serde_json::to_vec(v).map_err(|e| e.to_string()),
            Fmt::Postcard => postcard::to_allocvec(v).map_err(|e| e.to_string()),
            Fmt::Bincode => bincode::serialize(v).map_err(|e| e.to_string()),
        }
    }

    fn de<T: DeserializeOwned>(self, b: &[u8]) -> Result<T, String> {
        match self {
            Fmt::Json => serde_json::from_slice(b).map_err(|e| e.to_string()),
            Fmt::Postcard => postcard::from_bytes(b).map_err(|e| e.to_string()),
            Fmt::Bincode => bincode::deserialize(b).map_err(|e| e.to_string()),
        }
    }

    /// is byte-for-byte re-serialisation part of the statement for this format?
    fn bytes_judged(self) -> bool {
        !matches!(self, Fmt::Json)
    }
}

/// (type prefix, format, reason): pairs a back-end cannot represent on the unchanged tree
/// (format limitations, not regressions). Empty: every pair round-trips on the unchanged tree.
const EXCLUDED: &[(&str, Fmt, &str)] = &[];

fn excluded(ty: &str, f: Fmt) -> Option<&'static str> {
    EXCLUDED.iter().find(|(t, ff, _)| ty.starts_with(t) && *ff == f).map(|x| x.2)
}

fn trunc<T: Debug>(v: &T) -> String {
    let s = format!("{v:?}");
    if s.len() > 500 {
        let mut k = 500;
        while !s.is_char_boundary(k) {
            k -= 1;
        }
        format!("{}…", &s[..k])
    } else {
        s
    }
}

fn show_bytes(f: Fmt, b: &[u8]) -> String {
    let cut = &b[..b.len().min(400)];
    match f {
        Fmt::Json => String::from_utf8_lossy(cut).into_owned(),
        _ => hx(cut),
    }
}

/// where a value came from: enough to regenerate it
struct Ctx<'a> {
    info: &'a Value,
    index: u64,
}

impl Ctx<'_> {
    fn replay(&self, ty: &str, f: Fmt, bytes: Option<&[u8]>) -> Value {
        json!({"info": self.info, "index": self.index, "type": ty, "format": f.name(), "bytes": bytes.map(hx)})
    }
}

/// `None` = equal, `Some(which part differs)`
type Diff<T> = fn(&T, &T) -> Option<&'static str>;

fn plain<T: PartialEq>(a: &T, b: &T) -> Option<&'static str> {
    if a == b { None } else { Some("value differs") }
}

/// The receipts' own `PartialEq` ignores the payload (`data`) and the panic contract id;
/// serde carries both, so they are compared as well (reported under their own signature).
fn receipt_diff(a: &Receipt, b: &Receipt) -> Option<&'static str> {
    if a != b {
        return Some("value differs");
    }
    if a.data() != b.data() {
        return Some("payload field differs");
    }
    if let (Receipt::Panic { contract_id: c1, reason: r1, .. }, Receipt::Panic { contract_id: c2, reason: r2, .. }) = (a, b) {
        if c1 != c2 {
            return Some("panic contract id differs");
        }
        if r1 != r2 {
            return Some("value differs");
        }
    }
    None
}

fn receipts_diff(a: &Vec<Receipt>, b: &Vec<Receipt>) -> Option<&'static str> {
    if a.len() != b.len() {
        return Some("value differs");
    }
    a.iter().zip(b).find_map(|(x, y)| receipt_diff(x, y))
}

/// the three back-ends on one value
fn roundtrip<T>(rep: &mut Report, ctx: &Ctx, ty: &str, layout: &str, v: &T, diff: Diff<T>)
where
    T: Serialize + DeserializeOwned + Debug,
{
    for f in FORMATS {
        let class = format!("{ty}|{}|{layout}", f.name());
        if let Some(why) = excluded(ty, f) {
            rep.count(&format!("excluded|{ty}|{}", f.name()));
            rep.note(format!("excluded pair ({ty}, {}): {why}", f.name()));
            continue;
        }
        rep.eval();
        rep.class(class);
        let lay = if layout == "-" { String::new() } else { format!("{layout}|") };
        // the signature names the type/version only (not the mask or the sub-versions)
        let sty = ty.split('|').next().unwrap_or(ty);
        let sig = |what: &str| format!("C06|{sty}|{}|{lay}{what}", f.name());
        let r = guarded(|| {
            let b = f.ser(v)?;
            let w: Result<T, String> = f.de(&b);
            let again = match &w {
                Ok(w) => Some(f.ser(w)),
                Err(_) => None,
            };
            Ok::<_, String>((b, w, again))
        });
        match r {
            Err(p) => rep.violation(
                format!("C06|{sty}|{}|{lay}panic|{}", f.name(), p.site()),
                format!("{ty} via {}: panic {} for {}", f.name(), p.text, trunc(v)),
                || ctx.replay(ty, f, None),
            ),
            Ok(Err(e)) => rep.violation(sig("serialize error"), format!("{ty} via {}: {e}; value {}", f.name(), trunc(v)), || ctx.replay(ty, f, None)),
            Ok(Ok((b, Err(e), _))) => rep.violation(
                sig("deserialize error"),
                format!("{ty} via {}: {e}; serialized {}; value {}", f.name(), show_bytes(f, &b), trunc(v)),
                || ctx.replay(ty, f, Some(&b)),
            ),
            Ok(Ok((b, Ok(w), again))) => {
                if let Some(what) = diff(v, &w) {
                    rep.violation(
                        sig(what),
                        format!("{ty} via {}: value {} came back as {}; serialized {}", f.name(), trunc(v), trunc(&w), show_bytes(f, &b)),
                        || ctx.replay(ty, f, Some(&b)),
                    );
                } else {
                    match again {
                        Some(Ok(b2)) if b2 == b => {}
                        Some(Ok(b2)) => {
                            if f.bytes_judged() {
                                rep.violation(
                                    sig("re-serialisation differs"),
                                    format!("{ty} via {}: {} then {}", f.name(), show_bytes(f, &b), show_bytes(f, &b2)),
                                    || ctx.replay(ty, f, Some(&b)),
                                );
                            } else {
                                rep.count("observation_json_reserialisation_differs");
                            }
                        }
                        Some(Err(e)) => rep.violation(sig("serialize error"), format!("{ty} via {}: second serialisation: {e}", f.name()), || ctx.replay(ty, f, Some(&b))),
                        None => {}
                    }
                }
                rep.count_n(&format!("bytes|{}", f.name()), b.len() as u64);
            }
        }
    }
}

fn layout_of(p: &Policies) -> &'static str {
    // 4-tuple layout while only the four original policies are used, else one value per
    // set bit (the discriminator is written down here from the wire format description,
    // not taken from the implementation)
    if p.is_set(PolicyType::Expiration) || p.is_set(PolicyType::Owner) { "compact" } else { "legacy" }
}

fn tx_layout(tx: &Transaction) -> &'static str {
    match tx {
        Transaction::Script(t) => layout_of(t.policies()),
        Transaction::Create(t) => layout_of(t.policies()),
        Transaction::Upgrade(t) => layout_of(t.policies()),
        Transaction::Upload(t) => layout_of(t.policies()),
        Transaction::Blob(t) => layout_of(t.policies()),
        Transaction::Mint(_) => "-",
    }
}

fn fill_for(rng: &mut Rng, sel: u64) -> Fill {
    match sel % 6 {
        0 | 1 | 2 => Fill::Boundary,
        3 => Fill::Distinct(rng.u64()),
        4 => Fill::Const(if rng.bool() { u64::MAX } else { 0 }),
        _ => Fill::Const(rng.word()),
    }
}

fn fill_name(f: Fill) -> &'static str {
    match f {
        Fill::Boundary => "boundary",
        Fill::Const(_) => "const",
        Fill::Distinct(_) => "distinct",
    }
}

fn policies_value(rng: &mut Rng, mask: u32, style: u64) -> Policies {
    match style % 4 {
        1 => {
            let mut p = Policies::new();
            for (i, t) in g::POLICY_ORDER.iter().enumerate() {
                if mask & (1 << i) != 0 {
                    let v = match t {
                        PolicyType::Maturity | PolicyType::Expiration => u32::MAX as u64,
                        _ => u64::MAX,
                    };
                    p.set(*t, Some(v));
                }
            }
            p
        }
        2 => {
            let mut p = Policies::new();
            for (i, t) in g::POLICY_ORDER.iter().enumerate() {
                if mask & (1 << i) != 0 {
                    p.set(*t, Some(0));
                }
            }
            p
        }
        _ => g::policies(rng, mask),
    }
}

/// `upgrade_consensus_parameters` + `UpgradeMetadata::compute`
fn upgrade_case(rep: &mut Report, ctx: &Ctx, rng: &mut Rng, sub: u64) -> Option<Upgrade> {
    let fill = fill_for(rng, sub / 28);
    let (cv, sv, gv) = (sub as usize % 2, (sub as usize / 2) % 2, (sub as usize / 4) % 7);
    let params = params::consensus(&mut Filler::new(rng, fill), cv, sv, gv);
    let ty = format!("Upgrade(ConsensusParameters::{})", params::consensus_version_name(&params));
    let mask = rng.below(64) as u32;
    let pol = g::policies(rng, mask);
    let nw = rng.small(3) as usize;
    let witnesses: Vec<Witness> = (0..nw).map(|_| g::witness(rng, 40)).collect();
    let ni = rng.small(2) as usize;
    let inputs: Vec<Input> = (0..ni).map(|_| { let v = rng.usize_below(7); g::input(rng, v, 40, true) }).collect();
    let outputs: Vec<Output> = (0..rng.small(2)).map(|_| { let v = rng.usize_below(5); g::output(rng, v) }).collect();
    rep.eval();
    rep.class(format!("{ty}|upgrade|gas={}|script={}", params::gas_version_name(params.gas_costs()), params::script_params_version_name(params.script_params())));
    let rp = || ctx.replay(&ty, Fmt::Postcard, None);
    let built = guarded(|| Transaction::upgrade_consensus_parameters(&params, pol, inputs.clone(), outputs.clone(), witnesses.clone()));
    let tx = match built {
        Err(p) => {
            rep.violation(format!("C06|{ty}|upgrade|panic|{}", p.site()), format!("upgrade_consensus_parameters panics: {}", p.text), rp);
            return None;
        }
        Ok(Err(e)) => {
            rep.violation(format!("C06|{ty}|upgrade|upgrade_consensus_parameters fails"), format!("{e:?} for {}", trunc(&params)), rp);
            return None;
        }
        Ok(Ok(tx)) => tx,
    };
    // independent expectation: postcard of the parameters, SHA-256 of that
    let want_witness = match postcard::to_allocvec(&params) {
        Ok(b) => b,
        Err(e) => {
            rep.violation(format!("C06|{ty}|postcard|serialize error"), e.to_string(), rp);
            return None;
        }
    };
    let want_sum: [u8; 32] = Sha256::digest(&want_witness).into();
    let (widx, sum) = match tx.upgrade_purpose() {
        UpgradePurpose::ConsensusParameters { witness_index, checksum } => (*witness_index as usize, *checksum),
        other => {
            rep.violation(format!("C06|{ty}|upgrade|purpose is not ConsensusParameters"), format!("{other:?}"), rp);
            return None;
        }
    };
    if widx != nw || tx.witnesses().len() != nw + 1 || tx.witnesses()[..nw] != witnesses[..] {
        rep.violation(
            format!("C06|{ty}|upgrade|witness not appended after the given witnesses"),
            format!("witness_index {widx}, {} witnesses, {nw} given", tx.witnesses().len()),
            rp,
        );
        return None;
    }
    if tx.witnesses()[widx].as_vec() != &want_witness {
        rep.violation(
            format!("C06|{ty}|upgrade|witness != postcard(params)"),
            format!("witness {} expected {}", hx(&tx.witnesses()[widx].as_vec()[..tx.witnesses()[widx].as_vec().len().min(200)]), hx(&want_witness[..want_witness.len().min(200)])),
            rp,
        );
    }
    if *sum != want_sum {
        rep.violation(format!("C06|{ty}|upgrade|checksum != SHA-256(witness)"), format!("checksum {} expected {}", hx(*sum), hx(want_sum)), rp);
    }
    // metadata gives back exactly the parameters
    rep.eval();
    match guarded(|| UpgradeMetadata::compute(&tx)) {
        Err(p) => rep.violation(format!("C06|{ty}|upgrade|panic|{}", p.site()), format!("UpgradeMetadata::compute panics: {}", p.text), rp),
        Ok(Err(e)) => rep.violation(format!("C06|{ty}|upgrade|UpgradeMetadata::compute fails"), format!("{e:?} for {}", trunc(&params)), rp),
        Ok(Ok(UpgradeMetadata::ConsensusParameters { consensus_parameters, calculated_checksum })) => {
            if *consensus_parameters != params {
                rep.violation(
                    format!("C06|{ty}|upgrade|UpgradeMetadata::compute returns other parameters"),
                    format!("{} instead of {}", trunc(&consensus_parameters), trunc(&params)),
                    rp,
                );
            }
            if *calculated_checksum != want_sum {
                rep.violation(format!("C06|{ty}|upgrade|calculated checksum != SHA-256(witness)"), format!("{} expected {}", hx(*calculated_checksum), hx(want_sum)), rp);
            }
            rep.count("upgrade_metadata_ok");
        }
        Ok(Ok(other)) => rep.violation(format!("C06|{ty}|upgrade|UpgradeMetadata::compute returns other metadata"), format!("{other:?}"), rp),
    }
    // a modified witness must be refused (the checksum is what protects the malleable witness)
    if !want_witness.is_empty() {
        rep.eval();
        let mut bad = tx.clone();
        let n = want_witness.len();
        let flips = 1 + rng.below(3);
        for _ in 0..flips {
            let p = rng.usize_below(n);
            let bit = 1u8 << rng.below(8);
            bad.witnesses_mut()[widx].as_vec_mut()[p] ^= bit;
        }
        if bad.witnesses()[widx].as_vec() != &want_witness {
            match guarded(|| UpgradeMetadata::compute(&bad)) {
                Err(p) => rep.violation(format!("C06|{ty}|upgrade|panic|{}", p.site()), format!("UpgradeMetadata::compute panics on a modified witness: {}", p.text), rp),
                Ok(Ok(m)) => rep.violation(
                    format!("C06|{ty}|upgrade|modified witness accepted"),
                    format!("witness with {flips} flipped bits accepted by UpgradeMetadata::compute: {}", trunc(&m)),
                    rp,
                ),
                Ok(Err(ValidityError::TransactionUpgradeConsensusParametersChecksumMismatch)) => rep.count("upgrade_modified_witness_refused_checksum"),
                Ok(Err(_)) => rep.count("unspecified_upgrade_modified_witness_refused_other_error"),
            }
        }
    }
    Some(tx)
}

fn one_case(rep: &mut Report, rng: &mut Rng, idx: u64, info: &Value) {
    let ctx = Ctx { info, index: idx };
    let which = idx % 16;
    let sub = idx / 16;
    let allow_empty = sub % 5 == 0;
    match which {
        0..=2 => {
            let o = FreeOpts { allow_empty_distinguishing: allow_empty, cap: if sub % 3 == 0 { 600 } else { 40 }, ..Default::default() };
            let tx = g::free_tx(rng, (sub % 6) as usize, &o);
            let ty = format!("Transaction::{}", g::tx_kind_name(&tx));
            roundtrip(rep, &ctx, &ty, tx_layout(&tx), &tx, plain);
            if idx < 64 {
                rep.sample(|| json!({"type": ty, "json": Fmt::Json.ser(&tx).map(|b| String::from_utf8_lossy(&b[..b.len().min(600)]).into_owned()).unwrap_or_default()}));
            }
        }
        3 => {
            if let Some(up) = upgrade_case(rep, &ctx, rng, sub) {
                let tx = Transaction::Upgrade(up);
                roundtrip(rep, &ctx, "Transaction::Upgrade(consensus parameters)", tx_layout(&tx), &tx, plain);
            }
        }
        4 | 5 => {
            let r = g::receipt(rng, sub as usize, 300);
            let ty = format!("Receipt::{}", g::receipt_variant_name(&r));
            roundtrip(rep, &ctx, &ty, "-", &r, receipt_diff);
            if sub < 13 && which == 4 {
                rep.sample(|| json!({"type": ty, "postcard": Fmt::Postcard.ser(&r).map(hx).unwrap_or_default()}));
            }
        }
        6 | 7 => {
            let mask = (sub % 64) as u32;
            let p = policies_value(rng, mask, sub / 64 + which);
            let ty = format!("Policies|mask={mask}");
            roundtrip(rep, &ctx, &ty, layout_of(&p), &p, plain);
            rep.count(&format!("policies_layout_{}", layout_of(&p)));
            if sub < 64 && mask % 21 == 0 {
                rep.sample(|| json!({"type": ty, "layout": layout_of(&p), "json": Fmt::Json.ser(&p).map(|b| String::from_utf8_lossy(&b).into_owned()).unwrap_or_default(), "bincode": Fmt::Bincode.ser(&p).map(hx).unwrap_or_default()}));
            }
        }
        8 | 13 => {
            let fill = fill_for(rng, sub / 28 + which);
            let (cv, sv, gv) = (sub as usize % 2, (sub as usize / 2) % 2, (sub as usize / 4) % 7);
            let p = params::consensus(&mut Filler::new(rng, fill), cv, sv, gv);
            let ty = format!(
                "ConsensusParameters::{}|script={}|gas={}",
                params::consensus_version_name(&p),
                params::script_params_version_name(p.script_params()),
                params::gas_version_name(p.gas_costs())
            );
            rep.count(&format!("fill_{}", fill_name(fill)));
            roundtrip(rep, &ctx, &ty, "-", &p, plain);
        }
        9 => {
            let fill = fill_for(rng, sub / 7);
            let gv = sub as usize % 7;
            let vals = params::gas_values(&mut Filler::new(rng, fill), gv);
            let name = params::gas_version_name(&vals);
            roundtrip(rep, &ctx, &format!("GasCostsValues::{name}"), "-", &vals, plain);
            let costs = GasCosts::new(vals);
            roundtrip(rep, &ctx, &format!("GasCosts::{name}"), "-", &costs, plain);
        }
        10 => {
            let fill = fill_for(rng, sub);
            let mut f = Filler::new(rng, fill);
            let fee: FeeParameters = params::fee_params(&mut f);
            let txp: TxParameters = params::tx_params(&mut f);
            let pp: PredicateParameters = params::predicate_params(&mut f);
            let sp: ScriptParameters = params::script_params(&mut f, sub as usize);
            let cp: ContractParameters = params::contract_params(&mut f);
            let dc: DependentCost = f.dep();
            roundtrip(rep, &ctx, "FeeParameters::V1", "-", &fee, plain);
            roundtrip(rep, &ctx, "TxParameters::V1", "-", &txp, plain);
            roundtrip(rep, &ctx, "PredicateParameters::V1", "-", &pp, plain);
            roundtrip(rep, &ctx, &format!("ScriptParameters::{}", params::script_params_version_name(&sp)), "-", &sp, plain);
            roundtrip(rep, &ctx, "ContractParameters::V1", "-", &cp, plain);
            let dn = match dc {
                DependentCost::LightOperation { .. } => "DependentCost::LightOperation",
                DependentCost::HeavyOperation { .. } => "DependentCost::HeavyOperation",
            };
            roundtrip(rep, &ctx, dn, "-", &dc, plain);
        }
        11 => {
            let i = g::input(rng, sub as usize, 300, allow_empty);
            roundtrip(rep, &ctx, &format!("Input::{}", g::input_variant_name(&i)), "-", &i, plain);
            let o = g::output(rng, sub as usize);
            roundtrip(rep, &ctx, &format!("Output::{}", g::output_variant_name(&o)), "-", &o, plain);
        }
        12 => {
            let w: Witness = g::witness(rng, 300);
            let s: StorageSlot = g::storage_slot(rng);
            let u: UtxoId = g::utxo_id(rng);
            let t: TxPointer = g::tx_pointer(rng);
            let p: UpgradePurpose = g::upgrade_purpose(rng, sub as usize);
            roundtrip(rep, &ctx, "Witness", "-", &w, plain);
            roundtrip(rep, &ctx, "StorageSlot", "-", &s, plain);
            roundtrip(rep, &ctx, "UtxoId", "-", &u, plain);
            roundtrip(rep, &ctx, "TxPointer", "-", &t, plain);
            roundtrip(rep, &ctx, if sub % 2 == 0 { "UpgradePurpose::ConsensusParameters" } else { "UpgradePurpose::StateTransition" }, "-", &p, plain);
        }
        14 => {
            // the concrete transaction types
            let o = FreeOpts { allow_empty_distinguishing: allow_empty, cap: 40, ..Default::default() };
            let tx = g::free_tx(rng, (sub % 6) as usize, &o);
            let lay = tx_layout(&tx);
            match &tx {
                Transaction::Script(t) => roundtrip::<Script>(rep, &ctx, "Script", lay, t, plain),
                Transaction::Create(t) => roundtrip::<Create>(rep, &ctx, "Create", lay, t, plain),
                Transaction::Mint(t) => roundtrip::<Mint>(rep, &ctx, "Mint", lay, t, plain),
                Transaction::Upgrade(t) => roundtrip::<Upgrade>(rep, &ctx, "Upgrade", lay, t, plain),
                Transaction::Upload(t) => roundtrip::<Upload>(rep, &ctx, "Upload", lay, t, plain),
                Transaction::Blob(t) => roundtrip::<Blob>(rep, &ctx, "Blob", lay, t, plain),
            }
        }
        _ => {
            // a receipt list as it is stored
            let n = rng.small(6) as usize;
            let rs: Vec<Receipt> = (0..n).map(|k| g::receipt(rng, sub as usize + k * 5, 60)).collect();
            roundtrip(rep, &ctx, "Vec<Receipt>", "-", &rs, receipts_diff);
        }
    }
}

/// replay of a recorded serialisation: deserialize, serialise again, deserialize again
fn replay_bytes<T>(rep: &mut Report, ty: &str, f: Fmt, bytes: &[u8], diff: Diff<T>)
where
    T: Serialize + DeserializeOwned + Debug,
{
    rep.eval();
    let r = guarded(|| {
        let w: T = f.de(bytes)?;
        let b2 = f.ser(&w)?;
        let w2: T = f.de(&b2)?;
        Ok::<_, String>((w, b2, w2))
    });
    match r {
        Err(p) => rep.violation(format!("C06|{ty}|{}|panic|{}", f.name(), p.site()), p.text.clone(), || json!({"type": ty, "format": f.name(), "bytes": hx(bytes)})),
        Ok(Err(e)) => rep.note(format!("recorded bytes: {ty} via {}: error {e}", f.name())),
        Ok(Ok((w, b2, w2))) => {
            let same_bytes = b2 == bytes;
            let d = diff(&w, &w2);
            rep.note(format!("recorded bytes: {ty} via {}: deserialises to {}; re-serialisation {}; second round trip {}", f.name(), trunc(&w), if same_bytes { "identical" } else { "DIFFERS" }, d.unwrap_or("equal")));
            if (!same_bytes && f.bytes_judged()) || d.is_some() {
                rep.violation(
                    format!("C06|{ty}|{}|{}", f.name(), d.unwrap_or("re-serialisation differs")),
                    format!("{ty} via {}: recorded {} re-serialised {}", f.name(), show_bytes(f, bytes), show_bytes(f, &b2)),
                    || json!({"type": ty, "format": f.name(), "bytes": hx(bytes)}),
                );
            }
        }
    }
}

fn replay(r: &Value) -> Report {
    let mut rep = Report::new();
    let ty = r["type"].as_str().unwrap_or("").to_string();
    // 1. regenerate the case from (seed, worker, index): the complete check
    if let (Some(seed), Some(worker), Some(idx)) = (r["info"]["seed"].as_u64(), r["info"]["worker"].as_u64(), r["index"].as_u64()) {
        let mut rng = Rng::derive(seed, 0xC06 + worker, idx);
        one_case(&mut rep, &mut rng, idx, &r["info"]);
        rep.note(format!("replayed case seed={seed} worker={worker} index={idx}"));
    }
    // 2. the recorded serialisation itself
    if let (Some(f), Some(h)) = (r["format"].as_str().and_then(Fmt::from_name), r["bytes"].as_str()) {
        let b = unhx(h);
        let t = ty.split(['|', ':', '(']).next().unwrap_or("");
        match t {
            "Transaction" => replay_bytes::<Transaction>(&mut rep, &ty, f, &b, plain),
            "Receipt" => replay_bytes::<Receipt>(&mut rep, &ty, f, &b, receipt_diff),
            "Vec<Receipt>" => replay_bytes::<Vec<Receipt>>(&mut rep, &ty, f, &b, receipts_diff),
            "Policies" => replay_bytes::<Policies>(&mut rep, &ty, f, &b, plain),
            "ConsensusParameters" => replay_bytes::<ConsensusParameters>(&mut rep, &ty, f, &b, plain),
            "GasCosts" => replay_bytes::<GasCosts>(&mut rep, &ty, f, &b, plain),
            "GasCostsValues" => replay_bytes::<GasCostsValues>(&mut rep, &ty, f, &b, plain),
            "FeeParameters" => replay_bytes::<FeeParameters>(&mut rep, &ty, f, &b, plain),
            "TxParameters" => replay_bytes::<TxParameters>(&mut rep, &ty, f, &b, plain),
            "PredicateParameters" => replay_bytes::<PredicateParameters>(&mut rep, &ty, f, &b, plain),
            "ScriptParameters" => replay_bytes::<ScriptParameters>(&mut rep, &ty, f, &b, plain),
            "ContractParameters" => replay_bytes::<ContractParameters>(&mut rep, &ty, f, &b, plain),
            "DependentCost" => replay_bytes::<DependentCost>(&mut rep, &ty, f, &b, plain),
            "Input" => replay_bytes::<Input>(&mut rep, &ty, f, &b, plain),
            "Output" => replay_bytes::<Output>(&mut rep, &ty, f, &b, plain),
            "Witness" => replay_bytes::<Witness>(&mut rep, &ty, f, &b, plain),
            "StorageSlot" => replay_bytes::<StorageSlot>(&mut rep, &ty, f, &b, plain),
            "UtxoId" => replay_bytes::<UtxoId>(&mut rep, &ty, f, &b, plain),
            "TxPointer" => replay_bytes::<TxPointer>(&mut rep, &ty, f, &b, plain),
            "UpgradePurpose" => replay_bytes::<UpgradePurpose>(&mut rep, &ty, f, &b, plain),
            "Script" => replay_bytes::<Script>(&mut rep, &ty, f, &b, plain),
            "Create" => replay_bytes::<Create>(&mut rep, &ty, f, &b, plain),
            "Mint" => replay_bytes::<Mint>(&mut rep, &ty, f, &b, plain),
            "Upgrade" => replay_bytes::<Upgrade>(&mut rep, &ty, f, &b, plain),
            "Upload" => replay_bytes::<Upload>(&mut rep, &ty, f, &b, plain),
            "Blob" => replay_bytes::<Blob>(&mut rep, &ty, f, &b, plain),
            _ => rep.note(format!("no byte-level replay for type {ty}")),
        }
    }
    if rep.evaluations == 0 {
        rep.inconclusive = Some(format!("replay record not understood: {r}"));
    }
    rep
}

pub fn run(cfg: &Cfg) -> Report {
    if let Some(r) = &cfg.replay {
        return replay(r);
    }
    let total = cfg.budget(40_000, 1_000_000);
    let per = (total / cfg.threads.max(1) as u64).max(16 * 64 * 2 / cfg.threads.max(1) as u64 + 1);
    let mut rep = par(cfg.threads, |w| {
        let mut rep = Report::new();
        let info = json!({"seed": cfg.seed, "worker": w});
        for idx in 0..per {
            let mut rng = Rng::derive(cfg.seed, 0xC06 + w as u64, idx);
            one_case(&mut rep, &mut rng, idx, &info);
            rep.count("values");
        }
        rep
    });
    rep.rule = "systematic product: transaction kind x policy layout, 13 receipt variants, 64 policy masks x {boundary, max, zero} values, consensus parameters {V1,V2} x script parameters {V1,V2} x gas table {V1..V7} with every numeric field from the boundary set / all distinct / constant, the sub-parameter types, inputs/outputs/witness/ids, concrete transaction types, receipt lists; each through serde_json, postcard, bincode; upgrade transactions built from the parameters. class = (type/version, format, policy layout)".into();
    rep.assume("equality is the types' own PartialEq (ignores cached metadata only, which is #[serde(skip)]); for receipts the payload and the panic contract id, which PartialEq ignores but serde carries, are compared in addition");
    rep.assume("sha2 and the postcard crate are trusted; the expected upgrade witness is postcard::to_allocvec(&params) computed by the harness");
    rep.note("byte-for-byte re-serialisation is judged for postcard and bincode; for serde_json it is only counted (observation_json_reserialisation_differs)");
    rep.note("a modified upgrade witness must not be accepted by UpgradeMetadata::compute; which error it is refused with is counted, not judged");
    if EXCLUDED.is_empty() {
        rep.note("no (type, format) pair is excluded: all three back-ends represent every listed type on the unchanged tree");
    }
    rep.gate("classes", rep.classes.len() as u64, 500);
    rep.gate("policies_legacy_layout", rep.counter("policies_layout_legacy"), 16);
    rep.gate("policies_compact_layout", rep.counter("policies_layout_compact"), 48);
    rep.gate("upgrade_metadata_ok", rep.counter("upgrade_metadata_ok"), 1);
    rep.gate("upgrade_modified_witness_refused", rep.counter("upgrade_modified_witness_refused_checksum") + rep.counter("unspecified_upgrade_modified_witness_refused_other_error"), 1);
    rep
}
