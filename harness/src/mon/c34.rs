//! C34 Calls and returns preserve the caller's frame.
//!
//! Step monitor with a shadow call stack: at every completed CALL that enters a callee the
//! caller image (registers, owned stack bytes, call pc) is recorded and the callee entry
//! conditions + the call frame bytes in memory are compared with the documented layout; at
//! the RET/RETD step that leaves the callee the caller's registers, stack bytes, depth and
//! the returned data are compared with the image.
use super::grp_e::{
    Drive,
    drive,
};
use crate::{
    Cfg,
    Report,
    Rng,
    hx,
    prog::Weights,
    scenario::{
        Scenario,
        ScenarioOpts,
    },
    stepbus::{
        BusOpts,
        MEM_SIZE,
        Snap,
        Step,
        StepEnd,
        StepMonitor,
    },
    world::World,
};
use fuel_asm::{
    Instruction,
    PanicReason,
    RegId,
};
use fuel_tx::Receipt;
use serde_json::json;

/// documented call frame: to 32 | asset id 32 | 64 registers 512 | code size 8 | a 8 | b 8
const FRAME_LEN: u64 = 600;
const OFF_ASSET: u64 = 32;
const OFF_REGS: u64 = 64;
const OFF_CODE_SIZE: u64 = 576;
const OFF_A: u64 = 584;
const OFF_B: u64 = 592;

const R_PC: usize = 3;
const R_FP: usize = 6;
const R_HP: usize = 7;
const R_GGAS: usize = 9;
const R_CGAS: usize = 10;
const R_BAL: usize = 11;
const R_RET: usize = 13;
const R_RETL: usize = 14;
const R_FLAG: usize = 15;

const REG_NAMES: [&str; 16] = ["$zero", "$one", "$of", "$pc", "$ssp", "$sp", "$fp", "$hp", "$err", "$ggas", "$cgas", "$bal", "$is", "$ret", "$retl", "$flag"];

fn reg_name(i: usize) -> String {
    if i < 16 { REG_NAMES[i].to_string() } else { "general purpose register".to_string() }
}

const FX_ALOC: u8 = 1;
const FX_STORAGE: u8 = 2;
const FX_TRANSFER: u8 = 4;
const FX_NESTED: u8 = 8;

fn fx_name(fx: u8) -> String {
    if fx == 0 {
        return "none".into();
    }
    let mut v = vec![];
    if fx & FX_ALOC != 0 {
        v.push("aloc");
    }
    if fx & FX_STORAGE != 0 {
        v.push("storage");
    }
    if fx & FX_TRANSFER != 0 {
        v.push("transfer");
    }
    if fx & FX_NESTED != 0 {
        v.push("nested-call");
    }
    v.join("+")
}

fn depth_bucket(d: usize) -> &'static str {
    match d {
        0 => "0",
        1 => "1",
        2 => "2",
        3 => "3",
        4..=7 => "4-7",
        8..=15 => "8-15",
        16..=31 => "16-31",
        _ => "32+",
    }
}

fn pad8(n: u64) -> u64 {
    n.div_ceil(8) * 8
}

/// Length of the frame chain reconstructed from memory: follow the saved `$fp` registers.
fn chain_len(s: &Snap) -> Option<usize> {
    let mut f = s.fp();
    let mut n = 0usize;
    while f != 0 {
        n += 1;
        if n > 100_000 {
            return None;
        }
        let nf = s.word_at(f.checked_add(OFF_REGS + 8 * R_FP as u64)?)?;
        if nf >= f {
            return None;
        }
        f = nf;
    }
    Some(n)
}

struct Image {
    regs: Vec<u64>,
    ssp: u64,
    sp: u64,
    stack: Vec<u8>,
    call_pc: u64,
    depth: usize,
    chain: Option<usize>,
    /// side effects of the callee while it was the running frame
    fx: u8,
}

struct CallMon {
    shadow: Vec<Image>,
    /// shadow stack lost track of the VM (must not happen): stop judging this run
    broken: bool,
    /// heap ranges `[lo, hi)` allocated by callees that have returned (most recent last)
    callee_heap: Vec<(u64, u64)>,
}

fn viol(rep: &mut Report, sig: String, what: String) {
    rep.violation(sig, what, || json!(null));
}

impl CallMon {
    fn on_call(&mut self, w: &World, s: &Step, ra: RegId, rb: RegId, rc: RegId, rd: RegId, rep: &mut Report) {
        let (pre, post) = (s.pre, s.post);
        let r = |id: RegId| pre.regs[id.to_u8() as usize];
        if post.depth != pre.depth + 1 {
            viol(rep, "C34|call entry|CALL completed but the call depth did not grow by one".into(), format!("depth {} -> {}", pre.depth, post.depth));
            self.broken = true;
            return;
        }
        rep.count("call_entries_checked");
        rep.max("max_depth_reached", post.depth as u64);
        if let Some(top) = self.shadow.last_mut() {
            top.fx |= FX_NESTED;
        }
        let sig = |x: &str| format!("C34|call entry|{x}");
        let fp = post.fp();
        // ---- registers of the callee
        if fp != pre.sp() {
            viol(rep, sig("$fp != caller's $sp"), format!("fp {fp} caller sp {}", pre.sp()));
        }
        let frame_ok = post.accessible(fp, FRAME_LEN);
        if !frame_ok {
            viol(rep, sig("call frame not accessible in memory"), format!("fp {fp} stack extent {}", post.stack_extent()));
            self.push_image(pre, rep);
            return;
        }
        let code_size_word = post.word_at(fp + OFF_CODE_SIZE).unwrap_or(u64::MAX);
        let want_end = fp as u128 + FRAME_LEN as u128 + code_size_word as u128;
        if post.ssp() as u128 != want_end || post.sp() as u128 != want_end {
            viol(
                rep,
                sig("$ssp/$sp != $fp + 600 + code size word of the frame"),
                format!("fp {fp} code size word {code_size_word} ssp {} sp {}", post.ssp(), post.sp()),
            );
        }
        if post.is() != fp + FRAME_LEN || post.pc() != fp + FRAME_LEN {
            viol(rep, sig("$is/$pc != $fp + 600"), format!("fp {fp} is {} pc {}", post.is(), post.pc()));
        }
        if post.regs[R_BAL] != r(rb) {
            viol(rep, sig("$bal != forwarded coins"), format!("bal {} rB {}", post.regs[R_BAL], r(rb)));
        }
        if post.regs[R_FLAG] != 0 {
            viol(rep, sig("$flag != 0"), format!("flag {}", post.regs[R_FLAG]));
        }
        if post.cgas() > pre.cgas() || post.cgas() > r(rd) {
            viol(rep, sig("$cgas of the callee exceeds the caller's $cgas or the forwarded amount"), format!("cgas {} caller {} rD {}", post.cgas(), pre.cgas(), r(rd)));
        }
        if post.ggas() > pre.ggas() {
            viol(rep, sig("$ggas grew"), format!("{} -> {}", pre.ggas(), post.ggas()));
        }
        // not part of the statement: registers passed through to the callee (counted)
        if post.hp() != pre.hp() {
            rep.count("observed_hp_changed_at_call_entry");
        }
        if (16..64).any(|i| post.regs[i] != pre.regs[i]) {
            rep.count("observed_general_registers_changed_at_call_entry");
        }
        // ---- frame bytes
        let frame = post.bytes(fp, FRAME_LEN).unwrap_or_default();
        let word = |off: u64| u64::from_be_bytes(frame[off as usize..off as usize + 8].try_into().unwrap());
        let call_struct = pre.bytes(r(ra), 48);
        let asset = pre.bytes(r(rc), 32);
        let (Some(call_struct), Some(asset)) = (call_struct, asset) else {
            viol(rep, sig("CALL completed although its call structure / asset id operand is not accessible"), format!("rA {} rC {}", r(ra), r(rc)));
            self.push_image(pre, rep);
            return;
        };
        if frame[0..32] != call_struct[0..32] {
            viol(rep, sig("frame.to != contract id of the call structure"), format!("frame {} struct {}", hx(&frame[0..32]), hx(&call_struct[0..32])));
        }
        if frame[OFF_ASSET as usize..OFF_ASSET as usize + 32] != asset[..] {
            viol(rep, sig("frame.asset_id != asset id at $rC"), format!("frame {} operand {}", hx(&frame[32..64]), hx(&asset)));
        }
        let pa = u64::from_be_bytes(call_struct[32..40].try_into().unwrap());
        let pb = u64::from_be_bytes(call_struct[40..48].try_into().unwrap());
        if word(OFF_A) != pa || word(OFF_B) != pb {
            viol(rep, sig("frame a/b parameters != call structure"), format!("frame ({}, {}) struct ({pa}, {pb})", word(OFF_A), word(OFF_B)));
        }
        for i in 0..64usize {
            let saved = word(OFF_REGS + 8 * i as u64);
            match i {
                R_PC => {
                    if saved == pre.pc() {
                        rep.count("observed_saved_pc_is_call_pc");
                    } else {
                        rep.count("observed_saved_pc_other");
                    }
                }
                R_CGAS | R_GGAS => {
                    if saved <= pre.regs[i] {
                        rep.count("observed_saved_gas_le_caller_gas");
                    } else {
                        rep.count("observed_saved_gas_gt_caller_gas");
                    }
                }
                _ => {
                    if saved != pre.regs[i] {
                        viol(rep, sig(&format!("saved register in the frame != caller's register|{}", reg_name(i))), format!("register {i}: saved {saved} caller {}", pre.regs[i]));
                    }
                }
            }
        }
        // ---- code
        match w.contracts.iter().find(|c| c.id.as_ref() == &call_struct[0..32]) {
            None => rep.count("unjudged_call_to_contract_unknown_to_the_world"),
            Some(c) => {
                let padded = pad8(c.code.len() as u64);
                if code_size_word != padded {
                    viol(rep, sig("frame code size != contract code length padded to 8"), format!("word {code_size_word} code len {} padded {padded}", c.code.len()));
                }
                match post.bytes(fp + FRAME_LEN, padded) {
                    None => viol(rep, sig("callee code region not accessible"), format!("fp {fp} padded {padded}")),
                    Some(mem) => {
                        let n = c.code.len();
                        if mem[..n] != c.code[..] {
                            viol(rep, sig("code in memory != contract code"), format!("contract {}", hx(c.id)));
                        } else if mem[n..].iter().any(|b| *b != 0) {
                            viol(rep, sig("code padding in memory not zero"), format!("contract {} len {n}", hx(c.id)));
                        }
                    }
                }
                rep.count("call_entries_with_code_compared");
            }
        }
        if let Some(c0) = chain_len(pre) {
            match chain_len(post) {
                Some(c1) if c1 == c0 + 1 && c1 == post.depth => {}
                other => viol(rep, sig("frame chain in memory does not grow by one / differs from the call depth"), format!("chain {c0} -> {other:?}, depth {}", post.depth)),
            }
        }
        let coins = if r(rb) == 0 { "no-coins" } else { "coins" };
        rep.class(format!("entry|depth={}|{coins}|{}", depth_bucket(post.depth), if pre.fp() == 0 { "from-script" } else { "from-contract" }));
        if rep.counter("call_entries_checked") <= 2 {
            rep.sample(|| json!({"event": "call entry", "depth": post.depth, "fp": fp, "ssp": post.ssp(), "is": post.is(), "bal": post.regs[R_BAL], "cgas": post.cgas(), "code_size_word": code_size_word, "to": hx(&frame[0..32])}));
        }
        self.push_image(pre, rep);
    }

    fn push_image(&mut self, pre: &Snap, rep: &mut Report) {
        let (ssp, sp) = (pre.ssp(), pre.sp());
        let stack = if sp >= ssp { pre.bytes(ssp, sp - ssp) } else { None };
        if stack.is_none() {
            rep.count("unjudged_caller_stack_not_readable_at_call");
        }
        self.shadow.push(Image { regs: pre.regs.clone(), ssp, sp, stack: stack.unwrap_or_default(), call_pc: pre.pc(), depth: pre.depth, chain: chain_len(pre), fx: 0 });
    }

    fn on_return(&mut self, s: &Step, kind: &'static str, ret_val: u64, ret_len: u64, rep: &mut Report) {
        let (pre, post) = (s.pre, s.post);
        let Some(img) = self.shadow.pop() else {
            rep.count("shadow_stack_empty_at_return");
            self.broken = true;
            return;
        };
        if !matches!(s.end, StepEnd::Continue) {
            // the return completed but the program ended with the fetch of the caller's
            // next instruction: `post` includes the VM epilogue, not judged
            rep.count("unjudged_return_followed_by_program_end");
            return;
        }
        rep.count("returns_checked");
        rep.count(&format!("returns_checked_{kind}"));
        let sig = |x: &str| format!("C34|return|{kind}|{x}");
        // depth
        if post.depth != img.depth || post.depth + 1 != pre.depth {
            viol(rep, sig("call depth not back to the value before the call"), format!("before call {} in callee {} after return {}", img.depth, pre.depth, post.depth));
        }
        if let (Some(c0), c1) = (img.chain, chain_len(post)) {
            if c1 != Some(c0) {
                viol(rep, sig("frame chain in memory differs from the chain before the call"), format!("before {c0} after {c1:?}"));
            }
        }
        // registers
        for i in 0..64usize {
            match i {
                R_CGAS | R_GGAS | R_RET | R_RETL | R_HP => {}
                R_PC => {
                    if post.pc() != img.call_pc + 4 {
                        viol(rep, sig("$pc != call pc + 4"), format!("call pc {} pc after return {}", img.call_pc, post.pc()));
                    }
                }
                _ => {
                    if post.regs[i] != img.regs[i] {
                        viol(rep, sig(&format!("caller register not restored|{}", reg_name(i))), format!("register {i}: at call {} after return {} (callee had {})", img.regs[i], post.regs[i], pre.regs[i]));
                    }
                }
            }
        }
        if post.regs[R_RET] != ret_val || post.regs[R_RETL] != ret_len {
            viol(rep, sig("$ret/$retl != returned value/length"), format!("ret {} retl {} expected {ret_val} {ret_len}", post.regs[R_RET], post.regs[R_RETL]));
        }
        if post.hp() != pre.hp() {
            viol(rep, sig("$hp after return != callee's $hp"), format!("callee {} after return {} caller at call {}", pre.hp(), post.hp(), img.regs[R_HP]));
        }
        if post.ggas() > img.regs[R_GGAS] || post.cgas() > img.regs[R_CGAS] {
            rep.count("observed_gas_after_return_exceeds_gas_at_call");
        }
        // caller stack bytes
        if img.sp >= img.ssp {
            match post.bytes(img.ssp, img.sp - img.ssp) {
                Some(now) if now == img.stack => {}
                Some(now) => {
                    let at = now.iter().zip(img.stack.iter()).position(|(a, b)| a != b).unwrap_or(0) as u64;
                    viol(rep, sig("caller stack bytes changed during the call"), format!("first difference at {} (caller ssp {} sp {})", img.ssp + at, img.ssp, img.sp));
                }
                None => viol(rep, sig("caller stack not accessible after return"), format!("ssp {} sp {} extent {}", img.ssp, img.sp, post.stack_extent())),
            }
        }
        // heap allocated by the callee stays readable
        let hp = post.hp();
        let raw_heap_covers = hp <= MEM_SIZE && post.heap.len() as u64 >= MEM_SIZE - hp;
        if !post.accessible(hp, MEM_SIZE.saturating_sub(hp)) || !raw_heap_covers {
            viol(rep, sig("heap [$hp, 2^26) not accessible after return"), format!("hp {hp} raw heap len {}", post.heap.len()));
        }
        if hp < img.regs[R_HP] {
            if self.callee_heap.len() >= 8 {
                self.callee_heap.remove(0);
            }
            self.callee_heap.push((hp, img.regs[R_HP]));
            // the callee's allocations are unchanged by the return
            let n = img.regs[R_HP] - hp;
            if pre.bytes(hp, n) != post.bytes(hp, n) {
                viol(rep, sig("heap allocated by the callee changed or became unreadable at return"), format!("[{hp}, {})", img.regs[R_HP]));
            }
        }
        if kind == "RETD" {
            let data = s.new_receipts.iter().find_map(|r| match r {
                Receipt::ReturnData { data, ptr, len, .. } => Some((data.as_ref().map(|b| AsRef::<[u8]>::as_ref(b).to_vec()).unwrap_or_default(), *ptr, *len)),
                _ => None,
            });
            let callee_view = pre.bytes(ret_val, ret_len);
            let caller_view = post.bytes(ret_val, ret_len);
            let where_ = if ret_len == 0 {
                "empty"
            } else if ret_val >= pre.hp() {
                "heap"
            } else if ret_val >= img.sp {
                "callee-stack"
            } else {
                "below-callee"
            };
            rep.count(&format!("retd_data_{where_}"));
            match (&callee_view, &caller_view) {
                // a zero-length range carries no data: accessibility of an empty range is
                // not specified
                _ if ret_len == 0 => rep.count("unjudged_retd_of_length_zero"),
                (Some(a), Some(b)) if a == b => {
                    if let Some((d, ptr, len)) = &data {
                        if d != a || *ptr != ret_val || *len != ret_len {
                            viol(rep, sig("returned range in memory != ReturnData receipt"), format!("ptr {ret_val} len {ret_len} receipt ptr {ptr} len {len}"));
                        }
                    } else {
                        rep.count("unjudged_retd_without_receipt");
                    }
                }
                (Some(_), _) => viol(rep, sig(&format!("returned data not readable / changed for the caller|{where_}")), format!("ptr {ret_val} len {ret_len}")),
                (None, _) => rep.count("unjudged_retd_range_not_accessible_in_model"),
            }
        }
        rep.class(format!("return|depth={}|{kind}|fx={}", depth_bucket(pre.depth), fx_name(img.fx)));
        if rep.counter(&format!("returns_checked_{kind}")) <= 1 {
            rep.sample(|| json!({"event": "return", "kind": kind, "depth_in_callee": pre.depth, "call_pc": img.call_pc, "pc_after": post.pc(), "ret": post.regs[R_RET], "retl": post.regs[R_RETL], "caller_stack_bytes_compared": img.stack.len(), "callee_side_effects": fx_name(img.fx)}));
        }
    }

    /// Reads of heap memory (in particular memory allocated by returned callees) must not
    /// be refused.
    fn heap_read(&mut self, s: &Step, addr: u128, len: u128, rep: &mut Report) {
        let pre = s.pre;
        if len == 0 || addr < pre.hp() as u128 || addr + len > MEM_SIZE as u128 {
            return;
        }
        let (a, e) = (addr as u64, (addr + len) as u64);
        let of_callee = self.callee_heap.iter().any(|(lo, hi)| a < *hi && *lo < e);
        rep.count("heap_reads_observed");
        if of_callee {
            rep.count("heap_reads_of_memory_allocated_by_a_returned_callee");
        }
        if let Some(PanicReason::UninitalizedMemoryAccess | PanicReason::MemoryOverflow | PanicReason::MemoryOwnership) = s.own_panic() {
            viol(
                rep,
                format!("C34|heap unreadable|{}|{}", s.opcode_name(), if of_callee { "allocated by a returned callee" } else { "own heap" }),
                format!("read [{a}, {e}) hp {} refused with {:?}", pre.hp(), s.own_panic()),
            );
        }
    }
}

impl StepMonitor for CallMon {
    fn on_step(&mut self, w: &World, s: &Step, rep: &mut Report) {
        if self.broken || !s.pre.mem_captured {
            return;
        }
        let pre = s.pre;
        if pre.depth != self.shadow.len() {
            rep.count("shadow_stack_out_of_sync");
            self.broken = true;
            return;
        }
        let Some(instr) = &s.instr else {
            return;
        };
        let r = |id: RegId| pre.regs[id.to_u8() as usize] as u128;
        let completed = s.completed();
        // side effects of the running callee
        if completed {
            if let Some(top) = self.shadow.last_mut() {
                match instr {
                    Instruction::ALOC(_) => top.fx |= FX_ALOC,
                    Instruction::TR(_) | Instruction::TRO(_) | Instruction::SMO(_) | Instruction::MINT(_) | Instruction::BURN(_) => top.fx |= FX_TRANSFER,
                    _ => {
                        if s.accesses.iter().any(|a| a.write && a.table.contains("State")) {
                            top.fx |= FX_STORAGE;
                        }
                    }
                }
            }
        }
        match instr {
            Instruction::CALL(op) if completed => {
                let (a, b, c, d) = op.unpack();
                self.on_call(w, s, a, b, c, d, rep);
            }
            Instruction::RET(op) if completed && pre.fp() != 0 => {
                let a = op.unpack();
                self.on_return(s, "RET", r(a) as u64, 0, rep);
            }
            Instruction::RETD(op) if completed && pre.fp() != 0 => {
                let (a, b) = op.unpack();
                self.on_return(s, "RETD", r(a) as u64, r(b) as u64, rep);
            }
            Instruction::LB(op) => {
                let (_, b, imm) = op.unpack();
                self.heap_read(s, r(b) + u16::from(imm) as u128, 1, rep);
            }
            Instruction::LQW(op) => {
                let (_, b, imm) = op.unpack();
                self.heap_read(s, r(b) + 2 * u16::from(imm) as u128, 2, rep);
            }
            Instruction::LHW(op) => {
                let (_, b, imm) = op.unpack();
                self.heap_read(s, r(b) + 4 * u16::from(imm) as u128, 4, rep);
            }
            Instruction::LW(op) => {
                let (_, b, imm) = op.unpack();
                self.heap_read(s, r(b) + 8 * u16::from(imm) as u128, 8, rep);
            }
            Instruction::LOGD(op) => {
                let (_, _, c, d) = op.unpack();
                self.heap_read(s, r(c), r(d), rep);
            }
            Instruction::RETD(op) => {
                let (a, b) = op.unpack();
                self.heap_read(s, r(a), r(b), rep);
            }
            _ => {}
        }
        if matches!(instr, Instruction::CALL(_)) && !completed {
            rep.count("calls_that_panicked");
        }
    }
}

/// Heap pressure: callee A allocates all but a chosen gap between the caller's `$sp` and
/// `$hp`, writes canaries at the bottom of its allocation and returns; the caller then calls
/// B, whose call frame (600 bytes + padded code) either fits exactly into the gap or misses
/// it by `-delta` bytes. Fits: B runs and returns, A's heap bytes are still what A wrote.
/// Does not fit: the CALL panics with MemoryGrowthOverlap (the callee's stack region must
/// never reach into the heap).
fn heap_pressure_case(seed: u64, idx: u64, rep: &mut Report) {
    use crate::world::{
        ScriptSpec,
        run_plain,
    };
    use fuel_asm::{
        GTFArgs,
        op,
    };
    let mut rng = Rng::derive(seed ^ (0x34a << 32), 0, idx);
    let mut world = World::new(fuel_tx::ConsensusParameters::standard(), 0);
    let k = 60 + rng.below(140) as usize;
    let mut code_b: Vec<fuel_asm::Instruction> = vec![op::noop(); k];
    code_b.push(op::ret(RegId::ONE));
    let len_b = 4 * code_b.len() as u64;
    let pad_b = len_b.div_ceil(8) * 8;
    let deltas: [i64; 18] = [-4000, -600, -64, -9, -8, -7, -2, -1, 0, 0, 1, 2, 7, 8, 9, 64, 600, 4000];
    let delta = deltas[(idx % 18) as usize];
    let mut code_a = vec![op::movi(0x10, (600 + pad_b) as u32), op::add(0x10, 0x10, RegId::FP)];
    code_a.push(if delta >= 0 { op::addi(0x10, 0x10, delta as u16) } else { op::subi(0x10, 0x10, (-delta) as u16) });
    code_a.extend([op::sub(0x12, RegId::HP, 0x10), op::aloc(0x12), op::not(0x13, RegId::ZERO)]);
    for w in 0..8u16 {
        code_a.push(op::sw(RegId::HP, 0x13, w));
    }
    code_a.push(op::ret(RegId::ONE));
    let id_a = world.install_contract(code_a.into_iter().collect(), fuel_types::Salt::new(rng.arr()), vec![]);
    let id_b = world.install_contract(code_b.into_iter().collect(), fuel_types::Salt::new(rng.arr()), vec![]);
    let mut data = id_a.as_ref().to_vec();
    data.extend_from_slice(&[0u8; 16]);
    data.extend_from_slice(id_b.as_ref());
    data.extend_from_slice(&[0u8; 16]);
    let script: Vec<u8> = vec![
        op::gtf_args(0x14, RegId::ZERO, GTFArgs::ScriptData),
        op::addi(0x15, 0x14, 48),
        op::call(0x14, RegId::ZERO, 0x14, RegId::CGAS),
        op::call(0x15, RegId::ZERO, 0x15, RegId::CGAS),
        op::movi(0x16, 64),
        op::logd(RegId::ZERO, RegId::ZERO, RegId::HP, 0x16),
        op::ret(RegId::ONE),
    ]
    .into_iter()
    .collect();
    let spec = ScriptSpec { script, data, gas_limit: 2_000_000, max_fee: 0, coins: vec![(0, 0, 1000)], contracts: vec![id_a, id_b], ..Default::default() };
    let replay = json!({"kind": "heap-pressure", "seed": seed, "index": idx, "delta": delta, "callee_code_bytes": len_b});
    let ready = match spec.ready(&world, idx) {
        Ok(r) => r,
        Err(e) => {
            rep.count("generated_tx_rejected_by_checks");
            rep.note(format!("heap-pressure script rejected: {}", &e[..e.len().min(120)]));
            return;
        }
    };
    let (out, _vm) = run_plain(&world, ready);
    rep.eval();
    rep.count("heap_pressure_cases");
    let calls = out.receipts.iter().filter(|r| matches!(r, Receipt::Call { .. })).count();
    let panic = out.receipts.iter().find_map(|r| match r {
        Receipt::Panic { reason, .. } => Some(*reason.reason()),
        _ => None,
    });
    let logged: Option<Vec<u8>> = out.receipts.iter().find_map(|r| match r {
        Receipt::LogData { data, .. } => data.clone().map(|d| d.to_vec()),
        _ => None,
    });
    let fits = delta >= 0;
    rep.class(format!("heap-pressure|delta {}|{}", if delta < 0 { "<0" } else if delta == 0 { "=0" } else { ">0" }, match panic {
        Some(p) => format!("panic:{p:?}"),
        None => "completed".into(),
    }));
    if fits {
        if panic.is_some() || calls != 2 {
            rep.violation(
                "C34|heap pressure|a call whose frame fits between $sp and $hp is refused",
                format!("gap = frame + {delta}: calls completed {calls}, panic {panic:?}, state {:?}", out.state),
                || replay.clone(),
            );
        } else if logged.as_deref() != Some(&[0xffu8; 64][..]) {
            rep.violation(
                "C34|heap pressure|heap bytes written by a returned callee changed during a later call",
                format!("gap = frame + {delta}: the caller reads {} at the bottom of the first callee's allocation", logged.map(|d| hx(&d)).unwrap_or_else(|| "nothing".into())),
                || replay.clone(),
            );
        } else {
            rep.count("heap_pressure_fitting_calls_ok");
        }
    } else if panic != Some(PanicReason::MemoryGrowthOverlap) || calls != 1 {
        rep.violation(
            "C34|heap pressure|a call whose frame does not fit between $sp and $hp is not refused with MemoryGrowthOverlap",
            format!("gap = frame - {}: calls entered {calls}, panic {panic:?}, state {:?}, caller then read {}", -delta, out.state, logged.map(|d| hx(&d)).unwrap_or_else(|| "nothing".into())),
            || replay.clone(),
        );
    } else {
        rep.count("heap_pressure_overlapping_calls_refused");
    }
}

/// Callee heap survives the caller's later allocations: A allocates 64 bytes, fills them
/// and returns them with RETD; the caller then allocates `extra` bytes itself (from one byte
/// to several MiB: the heap buffer is re-allocated, by far more than a factor of two for
/// the large ones) and reads A's block through `$ret`.
fn heap_survival_case(seed: u64, idx: u64, rep: &mut Report) {
    use crate::world::{
        ScriptSpec,
        run_plain,
    };
    use fuel_asm::{
        GTFArgs,
        op,
    };
    let mut rng = Rng::derive(seed ^ (0x34b << 32), 0, idx);
    let mut world = World::new(fuel_tx::ConsensusParameters::standard(), 0);
    let mut code_a = vec![op::movi(0x10, 64), op::aloc(0x10), op::not(0x13, RegId::ZERO)];
    for w in 0..8u16 {
        code_a.push(op::sw(RegId::HP, 0x13, w));
    }
    code_a.push(op::retd(RegId::HP, 0x10));
    let id_a = world.install_contract(code_a.into_iter().collect(), fuel_types::Salt::new(rng.arr()), vec![]);
    let mut data = id_a.as_ref().to_vec();
    data.extend_from_slice(&[0u8; 16]);
    let extras: [(u32, u8); 12] = [(1, 0), (8, 0), (100, 0), (300, 0), (4096, 0), (70_000, 0), (262_143, 0), (1, 20), (3, 20), (5, 20), (1, 24), (33, 20)];
    let (base, shift) = extras[(idx % 12) as usize];
    let jitter = if shift == 0 { 0 } else { rng.below(4096) as u32 };
    let mut script = vec![
        op::gtf_args(0x14, RegId::ZERO, GTFArgs::ScriptData),
        op::call(0x14, RegId::ZERO, 0x14, RegId::CGAS),
        op::move_(0x15, RegId::RET),
        op::move_(0x16, RegId::RETL),
        op::movi(0x17, base),
    ];
    if shift > 0 {
        script.push(op::slli(0x17, 0x17, shift as u16));
        script.push(op::addi(0x17, 0x17, (jitter & 0xfff) as u16));
    }
    script.extend([op::aloc(0x17), op::logd(RegId::ZERO, RegId::ZERO, 0x15, 0x16), op::ret(RegId::ONE)]);
    let spec = ScriptSpec { script: script.into_iter().collect(), data, gas_limit: 5_000_000, max_fee: 0, coins: vec![(0, 0, 1000)], contracts: vec![id_a], ..Default::default() };
    let replay = json!({"kind": "heap-survival", "seed": seed, "index": idx, "caller_allocation": ((base as u64) << shift) + (jitter & 0xfff) as u64});
    let Ok(ready) = spec.ready(&world, idx) else {
        rep.count("generated_tx_rejected_by_checks");
        return;
    };
    let (out, _vm) = run_plain(&world, ready);
    rep.eval();
    rep.count("heap_survival_cases");
    let logged: Option<Vec<u8>> = out.receipts.iter().find_map(|r| match r {
        Receipt::LogData { data, .. } => data.clone().map(|d| d.to_vec()),
        _ => None,
    });
    rep.class(format!("heap-survival|caller allocates {}", if shift == 0 { format!("{base} B") } else { format!("{base} << {shift} B") }));
    let ok = matches!(out.state, Ok(fuel_vm::state::ProgramState::Return(1))) && logged.as_deref() == Some(&[0xffu8; 64][..]);
    if ok {
        rep.count("heap_survival_ok");
    } else {
        rep.violation(
            "C34|heap survival|heap bytes returned by a callee are not what it wrote after the caller allocated memory itself",
            format!("caller allocation {} bytes: state {:?}, the caller reads {}", ((base as u64) << shift) + (jitter & 0xfff) as u64, out.state, logged.map(|d| hx(&d)).unwrap_or_else(|| "nothing".into())),
            || replay.clone(),
        );
    }
}

pub fn run(cfg: &Cfg) -> Report {
    if let Some(r) = &cfg.replay {
        let c = r.get("case").unwrap_or(r);
        if c["kind"].as_str() == Some("heap-survival") {
            let mut rep = Report::new();
            heap_survival_case(c["seed"].as_u64().unwrap_or(0), c["index"].as_u64().unwrap_or(0), &mut rep);
            return rep;
        }
    }
    if let Some(r) = &cfg.replay {
        let c = r.get("case").unwrap_or(r);
        if c["kind"].as_str() == Some("heap-pressure") {
            let mut rep = Report::new();
            heap_pressure_case(c["seed"].as_u64().unwrap_or(0), c["index"].as_u64().unwrap_or(0), &mut rep);
            return rep;
        }
    }
    let opts = |idx: u64, rng: &mut Rng| {
        let mut w = Weights::default();
        w.call = 22;
        w.heap = 8;
        w.money = 8;
        w.hostile = 25;
        let mut cw = w.clone();
        cw.call = 14;
        cw.storage = 10;
        cw.ldc = 3;
        match idx % 4 {
            0 => {
                // chain: contract k calls k-1 first thing (nesting up to ~45 frames)
                let chain = 2 + rng.below(44) as usize;
                cw.call = 2;
                cw.hostile = 8;
                cw.garbage = 0;
                ScenarioOpts { weights: w, contract_weights: cw, chain, contract_snippets: 4, schedule: (idx % 8 == 4) as u8, tight_gas: 20, ragged_code: 500, ..Default::default() }
            }
            1 => {
                // counted self-recursion
                cw.recurse = 800;
                cw.call = 3;
                cw.hostile = 10;
                ScenarioOpts { weights: w, contract_weights: cw, contract_snippets: 5, schedule: (idx % 8 == 5) as u8, tight_gas: 20, ragged_code: 500, ..Default::default() }
            }
            _ => {
                cw.recurse = 120;
                w.hostile = if idx % 8 == 2 { 120 } else { 30 };
                ScenarioOpts { weights: w, contract_weights: cw, schedule: if idx % 8 == 3 { 3 } else { 0 }, max_contracts: 5, tight_gas: 60, ragged_code: 500, ..Default::default() }
            }
        }
    };
    let mons = |_sc: &Scenario| -> Vec<Box<dyn StepMonitor>> { vec![Box::new(CallMon { shadow: vec![], broken: false, callee_heap: vec![] })] };
    let d = Drive { prop: "C34", stream: 34, quick: 16_000, thorough: 600_000, bus: BusOpts { capture_mem: true, max_steps: 40_000 }, opts: &opts, monitors: &mons, after: None };
    let mut rep = drive(cfg, &d);
    if cfg.replay.is_none() {
        let n = cfg.budget(54, 3600);
        let hp = crate::par(cfg.threads, |w| {
            let mut r = Report::new();
            let mut i = w as u64;
            while i < n {
                heap_pressure_case(cfg.seed, i, &mut r);
                heap_survival_case(cfg.seed, i, &mut r);
                i += cfg.threads.max(1) as u64;
            }
            r
        });
        rep.merge(hp);
    }
    rep.rule = "generated call trees (chains of up to ~45 contracts, counted self-recursion, random calls with forwarded coins/gas, callee ALOC/storage/transfers, RET and RETD of any length): at every completed CALL the callee's registers ($fp,$ssp,$sp,$is,$pc,$bal,$flag,$cgas) and the 600-byte frame + code in memory vs the documented layout and the world's contract code; at the matching RET/RETD the caller's registers vs the image taken at the CALL (all but $cgas,$ggas,$ret,$retl,$hp; $pc = call pc + 4), $ret/$retl, caller stack bytes, call depth (hook and frame chain in memory), callee heap still readable, RETD data = receipt data; heap pressure: a callee allocates all memory but a gap of (next call's frame + delta), delta in -4000..4000 around 0: the next call is refused with MemoryGrowthOverlap iff delta < 0, otherwise completes and the first callee's heap bytes are unchanged; heap survival: 64 bytes returned by a callee are read back unchanged after the caller allocated 1 B .. 33 MiB itself. class = (depth bucket, return kind, callee side effects) and (entry, depth bucket, coins, caller kind)".into();
    rep.assume("call frame layout: to 32 | asset id 32 | 64 registers 512 | padded code size 8 | a 8 | b 8, code follows zero padded to 8; which $pc/$cgas/$ggas values are saved in the frame is not judged");
    rep.assume("a callee that reverts or panics ends the whole transaction: nothing to compare");
    rep.note("registers passed through to the callee ($hp, general purpose registers, $of/$err/$ret/$retl) are counted, not judged; a return whose following fetch ends the program is counted, not judged");
    if cfg.replay.is_none() {
        rep.gate("call_entries_checked", rep.counter("call_entries_checked"), 5000);
        rep.gate("call_entries_with_code_compared", rep.counter("call_entries_with_code_compared"), 5000);
        rep.gate("returns_checked_RET", rep.counter("returns_checked_RET"), 1500);
        rep.gate("returns_checked_RETD", rep.counter("returns_checked_RETD"), 500);
        rep.gate("heap_reads_of_memory_allocated_by_a_returned_callee", rep.counter("heap_reads_of_memory_allocated_by_a_returned_callee"), 10);
        rep.gate("max_depth_reached", rep.counter("max_depth_reached"), 3);
        rep.gate("heap_survival_ok", rep.counter("heap_survival_ok"), 24);
        rep.gate("heap_pressure_fitting_calls_ok", rep.counter("heap_pressure_fitting_calls_ok"), 10);
        rep.gate("heap_pressure_overlapping_calls_refused", rep.counter("heap_pressure_overlapping_calls_refused"), 10);
    }
    rep
}
