//! C29 No input makes the VM crash, report an internal bug or run forever.
use super::grp_e::{
    Drive,
    drive,
    replay_record,
};
use crate::{
    Cfg,
    Report,
    Rng,
    gen_tx::{
        self as g,
        FreeOpts,
    },
    guarded,
    hx,
    par,
    prog::{
        self,
        Weights,
    },
    recstore::RecStorage,
    scenario::{
        self,
        Scenario,
        ScenarioOpts,
    },
    stepbus::{
        BusOpts,
        Step,
        StepEnd,
        StepMonitor,
    },
    world::{
        Outcome,
        ScriptSpec,
        World,
        new_vm,
        outcome_of,
        run_plain,
    },
};
use fuel_tx::{
    ConsensusParameters,
    Transaction,
};
use fuel_types::Salt;
use fuel_vm::{
    checked_transaction::{
        CheckPredicateParams,
        EstimatePredicates,
        IntoChecked,
    },
    interpreter::MemoryInstance,
};
use serde_json::{
    Value,
    json,
};

/// under the default schedule every executed instruction consumes gas
struct GasProgress {
    default_schedule: bool,
    gas_limit: u64,
    steps: u64,
}

impl StepMonitor for GasProgress {
    fn on_step(&mut self, _w: &World, s: &Step, rep: &mut Report) {
        self.steps += 1;
        if !self.default_schedule {
            return;
        }
        rep.eval();
        // a step that completed (alone or followed by a failing fetch) must have cost gas;
        // a step whose own panic ended the run charged before validating, but a panic
        // raised before the charge (invalid opcode) legitimately costs nothing
        if matches!(s.end, StepEnd::Continue) || (s.completed() && s.instr.is_some()) {
            if s.post.ggas() >= s.pre.ggas() {
                rep.violation(
                    format!("C29|{}|instruction executed without consuming gas under the default schedule", s.opcode_name()),
                    format!("{:?} at pc {}: $ggas {} -> {}", s.instr, s.pre.pc(), s.pre.ggas(), s.post.ggas()),
                    || json!(null),
                );
            }
            rep.count("gas_progress_steps_checked");
        }
        if self.steps > self.gas_limit.saturating_add(2) {
            rep.violation("C29|more instructions executed than the gas limit allows under the default schedule", format!("{} steps, gas limit {}", self.steps, self.gas_limit), || json!(null));
        }
    }
}

/// classification of a finished execution per the property: Ok(program state) or a
/// storage error only
fn judge_outcome(rep: &mut Report, what: &str, out: &Outcome, injected: bool, replay: &Value) {
    match &out.state {
        Ok(_) => {}
        Err(e) if e.starts_with("HOST PANIC") => {
            rep.violation(format!("C29|{what}|host panic|{}", site_of(e)), e.clone(), || replay.clone());
        }
        Err(e) if e.contains("Bug") => {
            rep.violation(format!("C29|{what}|internal bug error|{}", bug_kind(e)), e.clone(), || replay.clone());
        }
        Err(e) if e.contains("Storage(Injected") => {
            rep.count("injected_storage_error_reported");
            if !injected {
                rep.violation(format!("C29|{what}|storage error without an injected fault"), e.clone(), || replay.clone());
            }
        }
        Err(e) => {
            // rejections that happen before the first instruction are the validity layer
            let pre = ["InputContractDoesNotExist", "ReadyTransactionWrongGasPrice", "CheckError", "Predicate"];
            if pre.iter().any(|p| e.contains(p)) {
                rep.count(&format!("unjudged_pre_execution_rejection_{}", e.chars().take(40).collect::<String>()));
            } else {
                rep.violation(format!("C29|{what}|execution ended with an error that is neither a program state nor a storage error|{}", e.chars().filter(|c| c.is_alphabetic()).take(40).collect::<String>()), e.clone(), || replay.clone());
            }
        }
    }
}

fn site_of(e: &str) -> String {
    let s = e.rsplit(" @ ").next().unwrap_or("").trim_start_matches("/repo/");
    // toolchain sources: drop the `/rustc/<hash>/` prefix
    match s.strip_prefix("/rustc/") {
        Some(r) => r.splitn(2, '/').nth(1).unwrap_or(r).to_string(),
        None => s.to_string(),
    }
}
fn bug_kind(e: &str) -> String {
    match e.find("variant: ") {
        Some(i) => e[i + 9..].chars().take_while(|c| c.is_alphanumeric()).collect(),
        None => "unknown".into(),
    }
}

/// B: uniformly random byte scripts and contracts
fn random_bytes_case(cfg: &Cfg, worker: u64, idx: u64, rep: &mut Report) {
    let mut rng = Rng::derive(cfg.seed ^ (0x29b << 32), worker, idx);
    let schedule = if idx % 3 == 2 { 3 } else { 0 };
    let params = scenario::params_with_schedule(&mut rng, schedule);
    let mut world = World::new(params, 0);
    let nc = rng.below(3);
    let mut ids = vec![];
    for _ in 0..nc {
        let n = 1 + rng.usize_below(60);
        let code = prog::random_bytes_program(&mut rng, n);
        ids.push(world.install_contract(code, Salt::new(rng.arr()), vec![]));
    }
    let n = 1 + rng.usize_below(80);
    let mut script = prog::random_bytes_program(&mut rng, n);
    // embed the contract ids so that random CALLs can hit them
    for id in &ids {
        script.extend_from_slice(id.as_ref());
    }
    let spec = ScriptSpec {
        script: script.clone(),
        data: rng.bytes_len_class(200),
        gas_limit: rng.below(60_000),
        max_fee: 0,
        coins: vec![(0, 0, 1_000_000), (1, 1, 500)],
        contracts: ids.clone(),
        change: vec![0],
        variable_outputs: rng.below(2) as usize,
        ..Default::default()
    };
    let replay = json!({"kind": "random-bytes", "seed": cfg.seed, "worker": worker, "index": idx, "script": hx(&script)});
    let ready = match guarded(|| spec.ready(&world, idx)) {
        Ok(Ok(r)) => r,
        Ok(Err(_)) => {
            rep.count("generated_tx_rejected_by_checks");
            return;
        }
        Err(p) => {
            rep.violation(format!("C29|checking|host panic|{}", p.site()), p.text, || replay.clone());
            return;
        }
    };
    rep.eval();
    let out = if idx % 2 == 1 {
        // on an interpreter that ran another random program over the same world before
        // (storage put back): frames, receipts, caches of the predecessor must not matter
        let n0 = 1 + rng.usize_below(80);
        let mut pre = spec.clone();
        pre.script = prog::random_bytes_program(&mut rng, n0);
        for id in &ids {
            pre.script.extend_from_slice(id.as_ref());
        }
        pre.gas_limit = rng.below(60_000);
        let mut vm = crate::world::new_vm(&world);
        if let Ok(Ok(r0)) = guarded(|| pre.ready(&world, idx ^ 0x5050)) {
            let _ = guarded(|| vm.transact(r0).map(|s| *s.state()));
            rep.count("random_byte_programs_on_a_reused_interpreter");
        }
        *vm.as_mut() = RecStorage::new(world.storage.clone());
        let state = match guarded(|| vm.transact(ready).map(|s| *s.state())) {
            Ok(Ok(s)) => Ok(s),
            Ok(Err(e)) => Err(format!("{e:?}")),
            Err(p) => Err(format!("HOST PANIC: {}", p.text)),
        };
        crate::world::outcome_of(&world, &vm, state)
    } else {
        run_plain(&world, ready).0
    };
    judge_outcome(rep, "random bytes", &out, false, &replay);
    match &out.state {
        Ok(s) => rep.class(format!("random-bytes|{}", super::grp_e::state_class(s, &out))),
        Err(_) => rep.class("random-bytes|error"),
    }
    rep.count("random_byte_programs");
}

/// F: the receipt limit. A counted LOG loop brings the context to within a few receipts of
/// the 65,535 limit, then a tail of receipt-producing instructions of other kinds (LOGD,
/// calls to tiny contracts that return, return data, log, revert or panic) and an end
/// (RET, RETD, RVRT, an invalid instruction) runs into the reserved last slots; G: pairs of generated transactions over one world run on one interpreter (the first call-heavy and often ending inside a callee).
fn flood_limit_case(cfg: &Cfg, worker: u64, idx: u64, rep: &mut Report) {
    use fuel_asm::{
        GTFArgs,
        RegId,
        op,
    };
    let mut rng = Rng::derive(cfg.seed ^ (0x29f << 32), worker, idx);
    let mut world = World::new(ConsensusParameters::standard(), 0);
    let tiny: [Vec<fuel_asm::Instruction>; 6] = [
        vec![op::ret(RegId::ONE)],
        vec![op::rvrt(RegId::ONE)],
        vec![op::log(RegId::ONE, RegId::ZERO, RegId::ZERO, RegId::ZERO), op::log(RegId::ONE, RegId::ZERO, RegId::ZERO, RegId::ZERO), op::ret(RegId::ONE)],
        vec![op::movi(0x10, 8), op::retd(RegId::ZERO, 0x10)],
        vec![op::movi(0x10, 8), op::logd(RegId::ZERO, RegId::ZERO, RegId::ZERO, 0x10), op::ret(RegId::ZERO)],
        vec![op::ret(RegId::ONE)],
    ];
    let mut ids = vec![];
    for (k, c) in tiny.iter().enumerate() {
        let mut code: Vec<u8> = c.iter().copied().collect();
        if k == 5 {
            // an undefined opcode: the callee panics
            code = vec![0xff, 0, 0, 0];
        }
        ids.push(world.install_contract(code, Salt::new([k as u8; 32]), vec![]));
    }
    // call structures in the script data: id ++ two parameter words
    let mut data = vec![];
    for id in &ids {
        data.extend_from_slice(id.as_ref());
        data.extend_from_slice(&[0u8; 16]);
    }
    let limit = 65_535i64;
    let before_tail = limit - 6 + rng.below(8) as i64;
    // the loop itself produces `n` receipts
    let n = before_tail.max(1) as u32;
    let mut code = vec![op::gtf_args(0x12, RegId::ZERO, GTFArgs::ScriptData), op::movi(0x11, 8), op::movi(0x10, n)];
    code.push(op::log(0x10, RegId::ZERO, RegId::ZERO, RegId::ZERO));
    code.push(op::subi(0x10, 0x10, 1));
    code.push(op::jnzb(0x10, RegId::ZERO, 1));
    let mut shape = vec![];
    for _ in 0..rng.below(7) {
        match rng.below(4) {
            0 => {
                code.push(op::log(RegId::ONE, RegId::ZERO, RegId::ZERO, RegId::ZERO));
                shape.push("log".to_string());
            }
            1 => {
                code.push(op::logd(RegId::ZERO, RegId::ZERO, RegId::ZERO, 0x11));
                shape.push("logd".to_string());
            }
            _ => {
                let k = rng.below(6) as u32;
                code.push(op::addi(0x13, 0x12, (k * 48) as u16));
                code.push(if rng.bool() { op::move_(0x14, RegId::CGAS) } else { op::movi(0x14, 10_000) });
                code.push(op::call(0x13, RegId::ZERO, 0x13, 0x14));
                shape.push(format!("call{k}"));
            }
        }
    }
    match rng.below(4) {
        0 => code.push(op::ret(RegId::ONE)),
        1 => code.push(op::retd(RegId::ZERO, 0x11)),
        2 => code.push(op::rvrt(RegId::ONE)),
        _ => {}
    }
    let mut script: Vec<u8> = code.into_iter().collect();
    if script.len() % 8 != 0 || rng.bool() {
        // falls through into an undefined opcode (also the "no end" case above)
        script.extend_from_slice(&[0xff, 0, 0, 0]);
    }
    let spec = ScriptSpec { script, data, gas_limit: 60_000_000, max_fee: 0, coins: vec![(0, 0, 1_000_000)], contracts: ids.clone(), change: vec![0], ..Default::default() };
    let replay = json!({"kind": "flood-limit", "seed": cfg.seed, "worker": worker, "index": idx, "loop": n, "tail": shape});
    let ready = match guarded(|| spec.ready(&world, idx)) {
        Ok(Ok(r)) => r,
        Ok(Err(e)) => {
            rep.count("generated_tx_rejected_by_checks");
            if rep.counter("generated_tx_rejected_by_checks") <= 2 {
                rep.note(format!("flood-limit script rejected: {}", &e[..e.len().min(120)]));
            }
            return;
        }
        Err(p) => {
            rep.violation(format!("C29|checking|host panic|{}", p.site()), p.text, || replay.clone());
            return;
        }
    };
    rep.eval();
    let (out, _) = run_plain(&world, ready);
    judge_outcome(rep, "receipt-limit flood", &out, false, &replay);
    let nrec = out.receipts.len() as i64;
    rep.class(format!("flood-limit|receipts={}|{}", if nrec >= limit - 1 { "limit".to_string() } else { format!("limit-{}", (limit - nrec).min(9)) }, match &out.state {
        Ok(s) => super::grp_e::state_class(s, &out),
        Err(_) => "error".into(),
    }));
    rep.count("flood_limit_cases");
    if nrec >= limit - 2 {
        rep.count("flood_limit_cases_reaching_the_reserved_slots");
    }
}

/// G: two generated transactions over one world on one interpreter. The first (call-heavy,
/// often ending in a revert or panic inside a callee, with part of the gas forwarded) leaves
/// frames, receipts, caches and registers behind; whatever the second one does, the host
/// must not crash or report an internal bug.
fn reuse_case(cfg: &Cfg, worker: u64, idx: u64, rep: &mut Report) {
    let mut rng = Rng::derive(cfg.seed ^ (0x29e << 32), worker, idx);
    let mut w = Weights::default();
    w.call = 30;
    w.flow = 8;
    w.hostile = 80;
    let mut cw = w.clone();
    cw.hostile = 200;
    let o = ScenarioOpts { weights: w.clone(), contract_weights: cw, tight_gas: 150, mid_gas: 300, max_contracts: 3, ..Default::default() };
    let sc = scenario::build(&mut rng, &o);
    let replay = json!({"kind": "reuse", "seed": cfg.seed, "worker": worker, "index": idx});
    let Ok(first) = sc.spec.ready(&sc.world, idx) else {
        rep.count("generated_tx_rejected_by_checks");
        return;
    };
    let mut vm = new_vm(&sc.world);
    let s1 = match guarded(|| vm.transact(first).map(|s| *s.state())) {
        Ok(Ok(s)) => Ok(s),
        Ok(Err(e)) => Err(format!("{e:?}")),
        Err(p) => Err(format!("HOST PANIC: {}", p.text)),
    };
    let out1 = outcome_of(&sc.world, &vm, s1);
    rep.eval();
    judge_outcome(rep, "reused interpreter (first transaction)", &out1, false, &replay);
    let in_call = out1.receipts.iter().filter(|r| matches!(r, fuel_tx::Receipt::Call { .. })).count() > out1.receipts.iter().filter(|r| matches!(r, fuel_tx::Receipt::Return { .. } | fuel_tx::Receipt::ReturnData { .. })).count();
    // the second transaction: another script over the same world, usually with less gas
    let mut spec2 = sc.spec.clone();
    let mut w2 = Weights::default();
    w2.call = if rng.bool() { 20 } else { 0 };
    w2.flow = 10;
    let n = 1 + rng.below(12) as usize;
    spec2.script = prog::generate(&mut rng, &sc.env, prog::Mode::Script, w2, n).bytes;
    spec2.gas_limit = match rng.below(3) {
        0 => rng.below(300),
        1 => rng.below((sc.spec.gas_limit / 2).max(2)),
        _ => sc.spec.gas_limit,
    };
    let Ok(second) = spec2.ready(&sc.world, idx ^ 0x7777) else {
        rep.count("generated_tx_rejected_by_checks");
        return;
    };
    *vm.as_mut() = RecStorage::new(sc.world.storage.clone());
    let s2 = match guarded(|| vm.transact(second).map(|s| *s.state())) {
        Ok(Ok(s)) => Ok(s),
        Ok(Err(e)) => Err(format!("{e:?}")),
        Err(p) => Err(format!("HOST PANIC: {}", p.text)),
    };
    let out2 = outcome_of(&sc.world, &vm, s2);
    rep.eval();
    judge_outcome(rep, "reused interpreter (second transaction)", &out2, false, &replay);
    rep.class(format!("reuse|first ended {}|second {}", if in_call { "inside a call" } else { "at script level" }, match &out2.state {
        Ok(s) => super::grp_e::state_class(s, &out2).split(':').next().unwrap_or("").to_string(),
        Err(_) => "error".into(),
    }));
    rep.count("reuse_pairs");
    if in_call {
        rep.count("reuse_pairs_first_ended_inside_a_call");
    }
}

/// C: storage faults injected at the k-th access
fn fault_case(cfg: &Cfg, worker: u64, idx: u64, rep: &mut Report) {
    let mut rng = Rng::derive(cfg.seed ^ (0x29c << 32), worker, idx);
    let mut w = Weights::default();
    w.call = 12;
    w.storage = 14;
    w.money = 10;
    let o = ScenarioOpts { weights: w.clone(), contract_weights: w, tight_gas: 20, ..Default::default() };
    let sc = scenario::build(&mut rng, &o);
    let replay = replay_record(cfg.seed, 0x29c, worker, idx, &sc);
    let Ok(ready) = sc.spec.ready(&sc.world, idx) else {
        rep.count("generated_tx_rejected_by_checks");
        return;
    };
    // how many accesses does a clean run make?
    let (_clean, vm) = run_plain(&sc.world, ready.clone());
    let n = {
        let st: &RecStorage = vm.as_ref();
        st.counter.get()
    };
    if n == 0 {
        return;
    }
    let tries = n.min(6);
    for t in 0..tries {
        let k = if t == 0 { 1 } else if t == 1 { n } else { 1 + rng.below(n) };
        let mut vm = new_vm(&sc.world);
        {
            let st: &RecStorage = vm.as_ref();
            st.fail_at.set(Some(k));
            st.recording.set(false);
        }
        let r = match guarded(|| vm.transact(ready.clone()).map(|s| *s.state())) {
            Ok(Ok(s)) => Ok(s),
            Ok(Err(e)) => Err(format!("{e:?}")),
            Err(p) => Err(format!("HOST PANIC: {}", p.text)),
        };
        let out = outcome_of(&sc.world, &vm, r);
        rep.eval();
        let mut rp = replay.clone();
        rp["fail_at"] = json!(k);
        judge_outcome(rep, "fault injection", &out, true, &rp);
        match &out.state {
            Ok(_) => {
                rep.count("injected_fault_run_ended_with_a_program_state");
                rep.class("fault|ended with program state");
            }
            Err(e) => rep.class(format!("fault|{}", e.chars().take(24).collect::<String>())),
        }
    }
    rep.count("fault_cases");
}

/// D: checking arbitrary transactions (validity, signatures, predicates) never panics or
/// reports a bug
fn checking_case(cfg: &Cfg, worker: u64, idx: u64, rep: &mut Report) {
    let mut rng = Rng::derive(cfg.seed ^ (0x29d << 32), worker, idx);
    let o = FreeOpts { cap: 200, allow_empty_distinguishing: true, ..Default::default() };
    let kind = idx as usize % 6;
    let tx = g::free_tx(&mut rng, kind, &o);
    let params = ConsensusParameters::standard();
    let height = (rng.word() as u32).into();
    let replay = json!({"kind": "checking", "seed": cfg.seed, "worker": worker, "index": idx, "tx": guarded(|| hx(fuel_types::canonical::Serialize::to_bytes(&tx))).unwrap_or_default()});
    macro_rules! chk {
        ($t:expr, $name:expr) => {{
            let t = $t.clone();
            let t2 = $t.clone();
            let r = guarded(|| t.into_checked(height, &params).map(|_| ()));
            judge_check(rep, $name, "into_checked", r.map(|r| r.map_err(|e| format!("{e:?}"))), &replay);
            let mut t3 = t2;
            let r = guarded(|| t3.estimate_predicates(&CheckPredicateParams::from(&params), MemoryInstance::new(), &fuel_vm::storage::predicate::EmptyStorage).map(|_| ()));
            judge_check(rep, $name, "estimate_predicates", r.map(|r| r.map_err(|e| format!("{e:?}"))), &replay);
        }};
    }
    match &tx {
        Transaction::Script(t) => chk!(t, "Script"),
        Transaction::Create(t) => chk!(t, "Create"),
        Transaction::Upgrade(t) => chk!(t, "Upgrade"),
        Transaction::Upload(t) => chk!(t, "Upload"),
        Transaction::Blob(t) => chk!(t, "Blob"),
        Transaction::Mint(t) => {
            let t = t.clone();
            let r = guarded(|| t.into_checked(height, &params).map(|_| ()));
            judge_check(rep, "Mint", "into_checked", r.map(|r| r.map_err(|e| format!("{e:?}"))), &replay);
        }
    }
}

fn judge_check(rep: &mut Report, kind: &str, api: &str, r: Result<Result<(), String>, crate::Panicked>, replay: &Value) {
    rep.eval();
    match r {
        Err(p) => rep.violation(format!("C29|{api}|{kind}|host panic|{}", p.site()), p.text, || replay.clone()),
        Ok(Err(e)) if e.contains("Bug") => rep.violation(format!("C29|{api}|internal bug error|{}", bug_kind(&e)), e, || replay.clone()),
        Ok(Err(e)) => rep.class(format!("{api}|{kind}|err:{}", e.chars().take(28).collect::<String>())),
        Ok(Ok(())) => rep.class(format!("{api}|{kind}|ok")),
    }
}

/// E: as many distinct asset ids among the inputs as `max_inputs` allows (the VM's balance
/// table also holds the base asset)
fn many_assets_case(cfg: &Cfg, worker: u64, idx: u64, rep: &mut Report) {
    let mut rng = Rng::derive(cfg.seed ^ (0x29e << 32), worker, idx);
    let params = ConsensusParameters::standard();
    let max_inputs = params.tx_params().max_inputs() as usize;
    let mut world = World::new(params, 0);
    let n = match rng.below(4) {
        0 => max_inputs,
        1 => max_inputs - 1,
        2 => max_inputs - 2,
        _ => 1 + rng.usize_below(max_inputs),
    };
    let with_base = rng.bool();
    world.assets.truncate(1);
    for i in 0..n {
        world.assets.push(fuel_types::AssetId::new(crate::refmodel::sha256(&[b"many", &(i as u64).to_be_bytes()])));
    }
    let code: Vec<u8> = fuel_asm::op::ret(fuel_asm::RegId::ONE).to_bytes().to_vec();
    let mut spec = ScriptSpec { script: fuel_asm::op::ret(fuel_asm::RegId::ONE).to_bytes().to_vec(), gas_limit: 1000, max_fee: 0, ..Default::default() };
    let first = if with_base { 0 } else { 1 };
    for a in first..(first + n).min(world.assets.len()) {
        spec.predicates.push((code.clone(), vec![], a, 10 + a as u64, 0));
    }
    if !with_base {
        // no input carries the base asset: a base-asset change output and an empty data
        // message (retryable amount 0) are legal all the same
        if rng.bool() {
            spec.change.push(0);
        }
        if rng.bool() && spec.predicates.len() < max_inputs {
            spec.messages.push((0, 0, vec![1, 2, 3]));
        }
        if rng.bool() {
            spec.script = fuel_asm::op::rvrt(fuel_asm::RegId::ONE).to_bytes().to_vec();
        }
    }
    let replay = json!({"kind": "many-assets", "seed": cfg.seed, "worker": worker, "index": idx, "inputs": spec.predicates.len(), "with_base_asset_input": with_base});
    // estimate predicate gas, then check and execute
    let tx = {
        use fuel_tx::Finalizable;
        let mut t = spec.builder(&world, idx).finalize();
        let _ = t.estimate_predicates(&CheckPredicateParams::from(&world.params), MemoryInstance::new(), &fuel_vm::storage::predicate::EmptyStorage);
        t
    };
    let ready = match guarded(|| tx.into_checked(world.height, &world.params).map_err(|e| format!("{e:?}")).and_then(|c| c.into_ready(0, world.gas_costs(), world.params.fee_params(), Some(world.height)).map_err(|e| format!("{e:?}")))) {
        Ok(Ok(r)) => r,
        Ok(Err(e)) => {
            rep.count(&format!("many_assets_rejected_{}", e.chars().take(30).collect::<String>()));
            return;
        }
        Err(p) => {
            rep.violation(format!("C29|checking|host panic|{}", p.site()), p.text, || replay.clone());
            return;
        }
    };
    rep.eval();
    let (out, _) = run_plain(&world, ready);
    judge_outcome(rep, "many distinct input assets", &out, false, &replay);
    rep.class(format!("many-assets|inputs={}|base_input={with_base}|{}", if spec.predicates.len() >= max_inputs - 1 { "near-max" } else { "below-max" }, out.state.is_ok()));
    rep.count("many_assets_cases");
}

fn bus_part(cfg: &Cfg) -> Report {
    let opts = |idx: u64, _rng: &mut Rng| {
        let mut w = Weights::default();
        w.hostile = if idx % 2 == 0 { 350 } else { 120 };
        w.garbage = if idx % 4 == 0 { 60 } else { 10 };
        w.flow = 12;
        w.crypto = 6;
        // schedule: default (gas-progress clause), unit and randomised
        let schedule = match idx % 4 {
            1 => 1,
            3 => 3,
            _ => 0,
        };
        // contracts: the whole storage instruction set on values of every length (legacy
        // 32-byte instructions on longer and shorter slots, reserved result registers, ...)
        let mut cw = w.clone();
        cw.storage = 14;
        cw.storage_rich = 500;
        ScenarioOpts { weights: w.clone(), contract_weights: cw, schedule, tight_gas: 60, ..Default::default() }
    };
    let mons = |sc: &Scenario| -> Vec<Box<dyn StepMonitor>> {
        vec![Box::new(GasProgress { default_schedule: sc.info["schedule"].as_u64() == Some(0), gas_limit: sc.spec.gas_limit, steps: 0 })]
    };
    let after = |_sc: &Scenario, plain: &Outcome, stepped: &Outcome, replay: &Value, rep: &mut Report| {
        judge_outcome(rep, "generated program", plain, false, replay);
        judge_outcome(rep, "generated program (stepped)", stepped, false, replay);
    };
    let d = Drive { prop: "C29", stream: 29, quick: 3000, thorough: 250_000, bus: BusOpts { capture_mem: false, max_steps: 300_000 }, opts: &opts, monitors: &mons, after: Some(&after) };
    drive(cfg, &d)
}

const PARTS: [&str; 7] = ["generated programs on the step bus", "random byte programs", "storage fault injection", "checking free-form transactions", "many distinct input assets", "receipt-limit floods", "two transactions on one interpreter"];

/// one shard, run inside a child process (single thread); `cfg.threads` is the number of
/// shards so that budgets are split
fn run_shard(cfg: &Cfg, shards: u64, from_part: u64, from_idx: u64) -> Report {
    let mut rep = Report::new();
    if from_part == 0 {
        let mut c = cfg.clone();
        c.threads = 1;
        c.scale = cfg.scale / shards as f64;
        c.opts.insert("drive-from".into(), from_idx.to_string());
        rep.merge(bus_part(&c));
    }
    let nb = cfg.budget(40_000, 6_000_000) / shards;
    let nf = cfg.budget(1500, 120_000) / shards;
    let nd = cfg.budget(20_000, 2_000_000) / shards;
    let start = |part: u64| if from_part == part { from_idx } else { 0 };
    if from_part <= 1 {
        for i in start(1)..nb {
            crate::progress(1, i);
            random_bytes_case(cfg, 0, i, &mut rep);
        }
    }
    if from_part <= 2 {
        for i in start(2)..nf {
            crate::progress(2, i);
            fault_case(cfg, 0, i, &mut rep);
        }
    }
    if from_part <= 3 {
        for i in start(3)..nd {
            crate::progress(3, i);
            checking_case(cfg, 0, i, &mut rep);
        }
    }
    let ne = cfg.budget(160, 8000) / shards;
    if from_part <= 4 {
        for i in start(4)..ne.max(2) {
            crate::progress(4, i);
            many_assets_case(cfg, 0, i, &mut rep);
        }
    }
    let nl = cfg.budget(96, 6000) / shards;
    if from_part <= 5 {
        for i in start(5)..nl.max(2) {
            crate::progress(5, i);
            flood_limit_case(cfg, 0, i, &mut rep);
        }
    }
    let nr = cfg.budget(6000, 600_000) / shards;
    if from_part <= 6 {
        for i in start(6)..nr.max(2) {
            crate::progress(6, i);
            reuse_case(cfg, 0, i, &mut rep);
        }
    }
    rep
}

fn child_seed(seed: u64, shard: u64) -> u64 {
    seed.wrapping_mul(1_000_003).wrapping_add(shard).wrapping_add(0x2900_0000_0000)
}

pub fn run(cfg: &Cfg) -> Report {
    if let Some(r) = &cfg.replay {
        let c = r.get("case").unwrap_or(r);
        let (w, i) = (c["worker"].as_u64().unwrap_or(0), c["index"].as_u64().unwrap_or(0));
        let mut c2 = cfg.clone();
        c2.seed = c["seed"].as_u64().unwrap_or(cfg.seed);
        let mut rep = Report::new();
        match c["kind"].as_str() {
            Some("random-bytes") => random_bytes_case(&c2, w, i, &mut rep),
            Some("checking") => checking_case(&c2, w, i, &mut rep),
            Some("many-assets") => many_assets_case(&c2, w, i, &mut rep),
            Some("flood-limit") => flood_limit_case(&c2, w, i, &mut rep),
            Some("reuse") => reuse_case(&c2, w, i, &mut rep),
            Some("abort") => {
                // re-run the case that killed a child (in-process: a crash reproduces it)
                match c["part"].as_u64().unwrap_or(0) {
                    0 => {
                        let mut c3 = c2.clone();
                        c3.replay = Some(json!({"seed": c2.seed, "worker": 0, "index": i}));
                        rep.merge(bus_part(&c3));
                    }
                    1 => random_bytes_case(&c2, 0, i, &mut rep),
                    2 => fault_case(&c2, 0, i, &mut rep),
                    3 => checking_case(&c2, 0, i, &mut rep),
                    4 => many_assets_case(&c2, 0, i, &mut rep),
                    5 => flood_limit_case(&c2, 0, i, &mut rep),
                    _ => reuse_case(&c2, 0, i, &mut rep),
                }
                rep.note("the recorded case was re-run in-process without crashing");
            }
            _ => {
                if c["stream"].as_u64() == Some(0x29c) {
                    fault_case(&c2, w, i, &mut rep)
                } else {
                    rep.merge(bus_part(cfg));
                }
            }
        }
        return rep;
    }
    // child mode
    if let Some(sh) = cfg.opt("shards") {
        let shards: u64 = sh.parse().unwrap_or(1);
        let fp: u64 = cfg.opt("from-part").and_then(|s| s.parse().ok()).unwrap_or(0);
        let fi: u64 = cfg.opt("from-idx").and_then(|s| s.parse().ok()).unwrap_or(0);
        if let Some(p) = cfg.opt("progress-file") {
            crate::set_progress_file(p);
        }
        return run_shard(cfg, shards, fp, fi);
    }
    // parent: every shard runs in its own process so that an abort (allocation failure,
    // stack overflow) is observed instead of killing the monitor
    let shards = cfg.threads.max(1) as u64;
    let exe = std::env::current_exe().expect("current exe");
    let mut rep = par(shards as usize, |w| {
        let mut rep = Report::new();
        let seed = child_seed(cfg.seed, w as u64);
        let (mut fp, mut fi) = (0u64, 0u64);
        let mut restarts = 0;
        loop {
            let out = format!("{}/C29.child.{}.{}.json", cfg.work_dir, cfg.seed, w);
            let prog = format!("{}/C29.progress.{}.{}", cfg.work_dir, cfg.seed, w);
            let _ = std::fs::remove_file(&out);
            let r = std::process::Command::new(&exe)
                .args(["C29", "--tier", if cfg.thorough { "thorough" } else { "quick" }, "--seed", &seed.to_string(), "--threads", "1", "--scale", &cfg.scale.to_string(), "--out", &out, "--work", &cfg.work_dir])
                .args(["--opt", &format!("shards={shards}"), "--opt", &format!("from-part={fp}"), "--opt", &format!("from-idx={fi}"), "--opt", &format!("progress-file={prog}")])
                .stdout(std::process::Stdio::null())
                .stderr(std::process::Stdio::piped())
                .output();
            let Ok(o) = r else {
                rep.inconclusive = Some("could not spawn a child worker".into());
                break;
            };
            if o.status.success() {
                if let Ok(s) = std::fs::read_to_string(&out) {
                    if let Ok(j) = serde_json::from_str::<Value>(&s) {
                        rep.merge(Report::from_json(&j));
                    }
                }
                let _ = std::fs::remove_file(&out);
                let _ = std::fs::remove_file(&prog);
                break;
            }
            // the child died: which case was it working on?
            use std::os::unix::process::ExitStatusExt;
            let sig = o.status.signal();
            let stderr = String::from_utf8_lossy(&o.stderr);
            let tail: String = stderr.lines().filter(|l| l.contains("memory allocation") || l.contains("overflow") || l.contains("panicked") || l.contains("fatal")).take(3).map(|l| l.to_string()).chain(stderr.lines().rev().take(2).map(|l| l.to_string())).collect::<Vec<_>>().into_iter().rev().collect::<Vec<_>>().join(" | ");
            let cur = std::fs::read(&prog).ok().filter(|b| b.len() == 16).map(|b| (u64::from_le_bytes(b[..8].try_into().unwrap()), u64::from_le_bytes(b[8..].try_into().unwrap())));
            let Some((part, idx)) = cur else {
                rep.inconclusive = Some(format!("child worker died (status {:?}) before its first case: {tail}", o.status));
                break;
            };
            let kind: String = if stderr.contains("memory allocation of") {
                "allocation failure".into()
            } else if stderr.contains("stack overflow") {
                "stack overflow".into()
            } else {
                format!("signal {sig:?}")
            };
            rep.violation(
                format!("C29|host process aborted|{kind}|{}", PARTS[part.min(6) as usize]),
                format!("child worker killed (status {:?}) while executing case part={part} index={idx} seed={seed}: {tail}", o.status),
                || json!({"kind": "abort", "part": part, "seed": seed, "worker": 0, "index": idx}),
            );
            rep.count("child_worker_aborts");
            restarts += 1;
            if restarts > 12 {
                rep.note("a shard was abandoned after 12 aborts");
                break;
            }
            fp = part;
            fi = idx + 1;
        }
        rep
    });
    rep.rule = "A: hostile grammar programs (scripts+contracts) on the step bus under the default, unit and randomised schedules: end state is a program state, $ggas strictly decreases per executed instruction and steps <= gas limit under the default schedule; B: uniformly random byte scripts/contracts (70% defined opcodes); C: storage error injected at the k-th access; D: into_checked/estimate_predicates on free-form transactions of all kinds; E: transactions with up to 255 distinct input assets; F: scripts that fill the receipt context to within a few receipts of the 65,535 limit and then run a tail of LOG/LOGD/CALLs to returning, reverting, logging and panicking contracts into the reserved last slots; G: pairs of generated transactions over one world run on one interpreter (the first call-heavy and often ending inside a callee). Oracle: no host panic, no host abort, no Bug error, only program states or (injected) storage errors. class = (workload, end state / error kind)".into();
    rep.assume("every shard of the workload runs in a child process of the monitor; the case about to run is written to a progress file first, so a child killed by a signal (allocation failure, stack overflow) is reported with the case it was executing");
    rep.gates.clear();
    rep.gate("gas_progress_steps_checked", rep.counter("gas_progress_steps_checked"), 10_000);
    rep.gate("random_byte_programs", rep.counter("random_byte_programs"), 1000);
    rep.gate("fault_cases", rep.counter("fault_cases"), 50);
    rep.gate("reuse_pairs_first_ended_inside_a_call", rep.counter("reuse_pairs_first_ended_inside_a_call"), 100);
    rep.gate("flood_limit_cases_reaching_the_reserved_slots", rep.counter("flood_limit_cases_reaching_the_reserved_slots"), 8);
    rep.gate("injected_storage_error_reported", rep.counter("injected_storage_error_reported"), 50);
    rep
}
