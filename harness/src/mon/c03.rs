//! C03 Transaction id commits to exactly the non-malleable content.
use crate::{
    Cfg,
    Report,
    Rng,
    gen_tx::{
        self as g,
        FreeOpts,
    },
    guarded,
    hx,
    par,
    refmodel::{
        canon,
        sha256,
    },
    unhx,
};
use fuel_tx::{
    Cacheable,
    Input,
    Output,
    Transaction,
    TxPointer as TxPointerT,
    UniqueIdentifier,
    UpgradePurpose as UpgradePurposeT,
    UtxoId,
    field::*,
    policies::PolicyType,
};
use fuel_types::{
    Address,
    AssetId,
    Bytes32,
    ChainId,
    ContractId,
    Nonce,
    canonical::{
        Deserialize,
        Serialize,
    },
};
use serde_json::{
    Value,
    json,
};

/// all fields an input can have; rebuilt through the public constructors
#[derive(Clone)]
struct InParts {
    variant: usize,
    utxo: UtxoId,
    owner: Address,
    sender: Address,
    amount: u64,
    asset: AssetId,
    txp: TxPointerT,
    widx: u16,
    pgu: u64,
    pred: Vec<u8>,
    pdata: Vec<u8>,
    data: Vec<u8>,
    nonce: Nonce,
    broot: Bytes32,
    sroot: Bytes32,
    cid: ContractId,
}

fn parts(i: &Input) -> InParts {
    let variant = match i {
        Input::CoinSigned(_) => 0,
        Input::CoinPredicate(_) => 1,
        Input::Contract(_) => 2,
        Input::MessageCoinSigned(_) => 3,
        Input::MessageCoinPredicate(_) => 4,
        Input::MessageDataSigned(_) => 5,
        Input::MessageDataPredicate(_) => 6,
    };
    InParts {
        variant,
        utxo: i.utxo_id().copied().unwrap_or_default(),
        owner: i.input_owner().copied().unwrap_or_default(),
        sender: i.sender().copied().unwrap_or_default(),
        amount: i.amount().unwrap_or(0),
        asset: match i {
            Input::CoinSigned(c) => c.asset_id,
            Input::CoinPredicate(c) => c.asset_id,
            _ => AssetId::zeroed(),
        },
        txp: i.tx_pointer().copied().unwrap_or_default(),
        widx: i.witness_index().unwrap_or(0),
        pgu: i.predicate_gas_used().unwrap_or(0),
        pred: i.input_predicate().map(|b| b.to_vec()).unwrap_or_default(),
        pdata: i.input_predicate_data().map(|b| b.to_vec()).unwrap_or_default(),
        data: i.input_data().map(|b| b.to_vec()).unwrap_or_default(),
        nonce: i.nonce().copied().unwrap_or_default(),
        broot: i.balance_root().copied().unwrap_or_default(),
        sroot: i.state_root().copied().unwrap_or_default(),
        cid: i.contract_id().copied().unwrap_or_default(),
    }
}

fn build(p: &InParts) -> Input {
    match p.variant {
        0 => Input::coin_signed(p.utxo, p.owner, p.amount, p.asset, p.txp, p.widx),
        1 => Input::coin_predicate(p.utxo, p.owner, p.amount, p.asset, p.txp, p.pgu, p.pred.clone(), p.pdata.clone()),
        2 => Input::contract(p.utxo, p.broot, p.sroot, p.txp, p.cid),
        3 => Input::message_coin_signed(p.sender, p.owner, p.amount, p.nonce, p.widx),
        4 => Input::message_coin_predicate(p.sender, p.owner, p.amount, p.nonce, p.pgu, p.pred.clone(), p.pdata.clone()),
        5 => Input::message_data_signed(p.sender, p.owner, p.amount, p.nonce, p.widx, p.data.clone()),
        _ => Input::message_data_predicate(p.sender, p.owner, p.amount, p.nonce, p.pgu, p.data.clone(), p.pred.clone(), p.pdata.clone()),
    }
}

fn flip32(b: &mut [u8; 32], rng: &mut Rng) {
    b[rng.usize_below(32)] ^= 1 << rng.below(8);
}
fn mut_bytes(v: &mut Vec<u8>, rng: &mut Rng) {
    // never make a non-empty vector empty (that would change the input variant's wire
    // shape, see C01 finding F6); any other change
    if v.is_empty() || rng.chance(1, 3) {
        v.push(rng.u8());
    } else {
        let i = rng.usize_below(v.len());
        v[i] ^= 1 << rng.below(8);
    }
}
fn mut_u64(x: &mut u64, rng: &mut Rng) {
    let old = *x;
    while *x == old {
        *x = match rng.below(3) {
            0 => old.wrapping_add(1),
            1 => old ^ (1 << rng.below(64)),
            _ => rng.word(),
        };
    }
}
fn mut_u16(x: &mut u16, rng: &mut Rng) {
    *x ^= 1 << rng.below(16);
}
fn mut_txp(p: &mut TxPointerT, rng: &mut Rng) {
    let (mut h, mut i) = (u32::from(p.block_height()), p.tx_index());
    if rng.bool() {
        h ^= 1 << rng.below(32);
    } else {
        mut_u16(&mut i, rng);
    }
    *p = TxPointerT::new(h.into(), i);
}
fn mut_utxo(u: &mut UtxoId, rng: &mut Rng) {
    let mut id: [u8; 32] = **u.tx_id();
    let mut oi = u.output_index();
    if rng.bool() {
        flip32(&mut id, rng);
    } else {
        mut_u16(&mut oi, rng);
    }
    *u = UtxoId::new(Bytes32::new(id), oi);
}
macro_rules! mut_id {
    ($t:ty, $v:expr, $rng:expr) => {{
        let mut b: [u8; 32] = *$v;
        flip32(&mut b, $rng);
        $v = <$t>::new(b);
    }};
}

/// (field name, malleable?) of input variant `v`
fn input_fields(v: usize) -> Vec<(&'static str, bool)> {
    match v {
        0 => vec![("utxo_id", false), ("owner", false), ("amount", false), ("asset_id", false), ("tx_pointer", true), ("witness_index", false)],
        1 => vec![("utxo_id", false), ("owner", false), ("amount", false), ("asset_id", false), ("tx_pointer", true), ("predicate_gas_used", true), ("predicate", false), ("predicate_data", false)],
        2 => vec![("utxo_id", true), ("balance_root", true), ("state_root", true), ("tx_pointer", true), ("contract_id", false)],
        3 => vec![("sender", false), ("recipient", false), ("amount", false), ("nonce", false), ("witness_index", false)],
        4 => vec![("sender", false), ("recipient", false), ("amount", false), ("nonce", false), ("predicate_gas_used", true), ("predicate", false), ("predicate_data", false)],
        5 => vec![("sender", false), ("recipient", false), ("amount", false), ("nonce", false), ("witness_index", false), ("data", false)],
        _ => vec![("sender", false), ("recipient", false), ("amount", false), ("nonce", false), ("predicate_gas_used", true), ("data", false), ("predicate", false), ("predicate_data", false)],
    }
}

fn mutate_input(i: &mut Input, field: &str, rng: &mut Rng) {
    let mut p = parts(i);
    match field {
        "utxo_id" => mut_utxo(&mut p.utxo, rng),
        "owner" | "recipient" => mut_id!(Address, p.owner, rng),
        "sender" => mut_id!(Address, p.sender, rng),
        "amount" => mut_u64(&mut p.amount, rng),
        "asset_id" => mut_id!(AssetId, p.asset, rng),
        "tx_pointer" => mut_txp(&mut p.txp, rng),
        "witness_index" => mut_u16(&mut p.widx, rng),
        "predicate_gas_used" => mut_u64(&mut p.pgu, rng),
        "predicate" => mut_bytes(&mut p.pred, rng),
        "predicate_data" => mut_bytes(&mut p.pdata, rng),
        "data" => mut_bytes(&mut p.data, rng),
        "nonce" => mut_id!(Nonce, p.nonce, rng),
        "balance_root" => mut_id!(Bytes32, p.broot, rng),
        "state_root" => mut_id!(Bytes32, p.sroot, rng),
        "contract_id" => mut_id!(ContractId, p.cid, rng),
        _ => unreachable!(),
    }
    *i = build(&p);
}

fn output_fields(o: &Output) -> Vec<(&'static str, bool)> {
    match o {
        Output::Coin { .. } => vec![("to", false), ("amount", false), ("asset_id", false)],
        Output::Contract(_) => vec![("input_index", false), ("balance_root", true), ("state_root", true)],
        Output::Change { .. } => vec![("to", false), ("amount", true), ("asset_id", false)],
        Output::Variable { .. } => vec![("to", true), ("amount", true), ("asset_id", true)],
        Output::ContractCreated { .. } => vec![("contract_id", false), ("state_root", false)],
    }
}

fn mutate_output(o: &mut Output, field: &str, rng: &mut Rng) {
    match o {
        Output::Coin { to, amount, asset_id } | Output::Change { to, amount, asset_id } | Output::Variable { to, amount, asset_id } => match field {
            "to" => mut_id!(Address, *to, rng),
            "amount" => mut_u64(amount, rng),
            _ => mut_id!(AssetId, *asset_id, rng),
        },
        Output::Contract(c) => match field {
            "input_index" => mut_u16(&mut c.input_index, rng),
            "balance_root" => mut_id!(Bytes32, c.balance_root, rng),
            _ => mut_id!(Bytes32, c.state_root, rng),
        },
        Output::ContractCreated { contract_id, state_root } => match field {
            "contract_id" => mut_id!(ContractId, *contract_id, rng),
            _ => mut_id!(Bytes32, *state_root, rng),
        },
    }
}

#[derive(Clone, Debug)]
struct Lens {
    name: String,
    malleable: bool,
}

macro_rules! with_chargeable {
    ($tx:expr, $t:ident => $body:expr) => {
        match $tx {
            Transaction::Script($t) => Some($body),
            Transaction::Create($t) => Some($body),
            Transaction::Upgrade($t) => Some($body),
            Transaction::Upload($t) => Some($body),
            Transaction::Blob($t) => Some($body),
            Transaction::Mint(_) => None,
        }
    };
}

fn lenses(tx: &Transaction) -> Vec<Lens> {
    let mut v = vec![];
    let mut add = |n: String, m: bool| v.push(Lens { name: n, malleable: m });
    with_chargeable!(tx, t => {
        for (i, inp) in t.inputs().iter().enumerate() {
            for (f, m) in input_fields(parts(inp).variant) {
                add(format!("inputs[{i}].{}.{f}", g::input_variant_name(inp)), m);
            }
        }
        for (i, o) in t.outputs().iter().enumerate() {
            for (f, m) in output_fields(o) {
                add(format!("outputs[{i}].{}.{f}", g::output_variant_name(o)), m);
            }
        }
        for i in 0..t.witnesses().len() {
            add(format!("witnesses[{i}]"), true);
        }
        add("witnesses.push".into(), true);
        add("inputs.push".into(), false);
        add("outputs.push".into(), false);
        for p in g::POLICY_ORDER.iter() {
            add(format!("policies.{p:?}"), false);
        }
    });
    match tx {
        Transaction::Script(_) => {
            add("script_gas_limit".into(), false);
            add("receipts_root".into(), true);
            add("script".into(), false);
            add("script_data".into(), false);
        }
        Transaction::Create(t) => {
            add("bytecode_witness_index".into(), false);
            add("salt".into(), false);
            for i in 0..t.storage_slots().len() {
                add(format!("storage_slots[{i}]"), false);
            }
            add("storage_slots.push".into(), false);
        }
        Transaction::Upgrade(_) => add("upgrade_purpose".into(), false),
        Transaction::Upload(t) => {
            add("bytecode_root".into(), false);
            add("bytecode_witness_index".into(), false);
            add("subsection_index".into(), false);
            add("subsections_number".into(), false);
            for i in 0..t.proof_set().len() {
                add(format!("proof_set[{i}]"), false);
            }
            add("proof_set.push".into(), false);
        }
        Transaction::Blob(_) => {
            add("blob_id".into(), false);
            add("bytecode_witness_index".into(), false);
        }
        Transaction::Mint(_) => {
            for (n, m) in [("tx_pointer", false), ("input_contract.utxo_id", true), ("input_contract.balance_root", true), ("input_contract.state_root", true), ("input_contract.tx_pointer", true), ("input_contract.contract_id", false), ("output_contract.input_index", false), ("output_contract.balance_root", true), ("output_contract.state_root", true), ("mint_amount", false), ("mint_asset_id", false), ("gas_price", false)] {
                add(n.into(), m);
            }
        }
    }
    v
}

fn idx(name: &str) -> usize {
    let a = name.find('[').unwrap() + 1;
    let b = name.find(']').unwrap();
    name[a..b].parse().unwrap()
}

fn apply(tx: &mut Transaction, l: &Lens, rng: &mut Rng) {
    let n = l.name.as_str();
    let field = n.rsplit('.').next().unwrap();
    // common part
    let done = with_chargeable!(tx, t => {
        if n.starts_with("inputs[") {
            mutate_input(&mut t.inputs_mut()[idx(n)], field, rng);
            true
        } else if n.starts_with("outputs[") {
            mutate_output(&mut t.outputs_mut()[idx(n)], field, rng);
            true
        } else if n.starts_with("witnesses[") {
            mut_bytes(t.witnesses_mut()[idx(n)].as_vec_mut(), rng);
            true
        } else if n == "witnesses.push" {
            t.witnesses_mut().push(rng.bytes_len_class(40).into());
            true
        } else if n == "inputs.push" {
            let v = rng.usize_below(7);
            t.inputs_mut().push(g::input(rng, v, 40, false));
            true
        } else if n == "outputs.push" {
            let v = rng.usize_below(5);
            t.outputs_mut().push(g::output(rng, v));
            true
        } else if n.starts_with("policies.") {
            let p = *g::POLICY_ORDER.iter().find(|p| format!("{p:?}") == field).unwrap();
            let cur = t.policies().get(p);
            let new = match cur {
                Some(_) if rng.chance(1, 3) => None,
                Some(v) => {
                    let mut x = v;
                    if matches!(p, PolicyType::Maturity | PolicyType::Expiration) {
                        x = (x ^ (1 << rng.below(32))) & 0xffff_ffff;
                    } else {
                        mut_u64(&mut x, rng);
                    }
                    Some(x)
                }
                None => Some(rng.below(1000)),
            };
            t.policies_mut().set(p, new);
            true
        } else {
            false
        }
    })
    .unwrap_or(false);
    if done {
        return;
    }
    match tx {
        Transaction::Script(t) => match n {
            "script_gas_limit" => mut_u64(t.script_gas_limit_mut(), rng),
            "receipts_root" => mut_id!(Bytes32, *t.receipts_root_mut(), rng),
            "script" => mut_bytes(t.script_mut(), rng),
            _ => mut_bytes(t.script_data_mut(), rng),
        },
        Transaction::Create(t) => match n {
            "bytecode_witness_index" => mut_u16(t.bytecode_witness_index_mut(), rng),
            "salt" => mut_id!(fuel_types::Salt, *t.salt_mut(), rng),
            "storage_slots.push" => {
                // keep the list sorted and unique as the type maintains it
                let mut s = t.storage_slots().clone();
                s.push(g::storage_slot(rng));
                s.sort();
                s.dedup();
                *t.storage_slots_mut().as_mut() = s;
            }
            _ => {
                let i = idx(n);
                let mut s = t.storage_slots().clone();
                let mut val: [u8; 32] = **s[i].value();
                flip32(&mut val, rng);
                s[i] = fuel_tx::StorageSlot::new(*s[i].key(), Bytes32::new(val));
                *t.storage_slots_mut().as_mut() = s;
            }
        },
        Transaction::Upgrade(t) => {
            let p = t.upgrade_purpose_mut();
            match p {
                UpgradePurposeT::ConsensusParameters { witness_index, checksum } => {
                    if rng.bool() {
                        mut_u16(witness_index, rng)
                    } else {
                        mut_id!(Bytes32, *checksum, rng)
                    }
                }
                UpgradePurposeT::StateTransition { root } => mut_id!(Bytes32, *root, rng),
            }
        }
        Transaction::Upload(t) => match n {
            "bytecode_root" => mut_id!(Bytes32, *t.bytecode_root_mut(), rng),
            "bytecode_witness_index" => mut_u16(t.bytecode_witness_index_mut(), rng),
            "subsection_index" => mut_u16(t.subsection_index_mut(), rng),
            "subsections_number" => mut_u16(t.subsections_number_mut(), rng),
            "proof_set.push" => t.proof_set_mut().push(g::bytes32(rng)),
            _ => {
                let i = idx(n);
                mut_id!(Bytes32, t.proof_set_mut()[i], rng)
            }
        },
        Transaction::Blob(t) => match n {
            "blob_id" => mut_id!(fuel_types::BlobId, *t.blob_id_mut(), rng),
            _ => mut_u16(t.bytecode_witness_index_mut(), rng),
        },
        Transaction::Mint(t) => match n {
            "tx_pointer" => mut_txp(t.tx_pointer_mut(), rng),
            "input_contract.utxo_id" => mut_utxo(&mut t.input_contract_mut().utxo_id, rng),
            "input_contract.balance_root" => mut_id!(Bytes32, t.input_contract_mut().balance_root, rng),
            "input_contract.state_root" => mut_id!(Bytes32, t.input_contract_mut().state_root, rng),
            "input_contract.tx_pointer" => mut_txp(&mut t.input_contract_mut().tx_pointer, rng),
            "input_contract.contract_id" => mut_id!(ContractId, t.input_contract_mut().contract_id, rng),
            "output_contract.input_index" => mut_u16(&mut t.output_contract_mut().input_index, rng),
            "output_contract.balance_root" => mut_id!(Bytes32, t.output_contract_mut().balance_root, rng),
            "output_contract.state_root" => mut_id!(Bytes32, t.output_contract_mut().state_root, rng),
            "mint_amount" => mut_u64(t.mint_amount_mut(), rng),
            "mint_asset_id" => mut_id!(AssetId, *t.mint_asset_id_mut(), rng),
            _ => mut_u64(t.gas_price_mut(), rng),
        },
    }
}

/// Reference id: the harness zeroes the malleable fields itself (list from the property
/// statement), removes the witnesses, encodes with the reference encoder and hashes.
fn reference_id(tx: &Transaction, chain: u64) -> [u8; 32] {
    let mut t = tx.clone();
    with_chargeable!(&mut t, c => {
        for i in c.inputs_mut().iter_mut() {
            let mut p = parts(i);
            p.txp = TxPointerT::default();
            match p.variant {
                1 | 4 | 6 => p.pgu = 0,
                2 => {
                    p.utxo = UtxoId::default();
                    p.broot = Bytes32::zeroed();
                    p.sroot = Bytes32::zeroed();
                }
                _ => {}
            }
            *i = build(&p);
        }
        for o in c.outputs_mut().iter_mut() {
            match o {
                Output::Contract(c) => {
                    c.balance_root = Bytes32::zeroed();
                    c.state_root = Bytes32::zeroed();
                }
                Output::Change { amount, .. } => *amount = 0,
                Output::Variable { to, amount, asset_id } => {
                    *to = Address::zeroed();
                    *amount = 0;
                    *asset_id = AssetId::zeroed();
                }
                _ => {}
            }
        }
        c.witnesses_mut().clear();
    });
    match &mut t {
        Transaction::Script(s) => *s.receipts_root_mut() = Bytes32::zeroed(),
        Transaction::Mint(m) => {
            let ic = m.input_contract_mut();
            ic.utxo_id = UtxoId::default();
            ic.balance_root = Bytes32::zeroed();
            ic.state_root = Bytes32::zeroed();
            ic.tx_pointer = TxPointerT::default();
            let oc = m.output_contract_mut();
            oc.balance_root = Bytes32::zeroed();
            oc.state_root = Bytes32::zeroed();
        }
        _ => {}
    }
    let (bytes, _) = canon::encode_tx(&t);
    sha256(&[&chain.to_be_bytes(), &bytes])
}

/// strip cached metadata through a canonical round trip
fn fresh(tx: &Transaction) -> Transaction {
    Transaction::from_bytes(&tx.to_bytes()).expect("round trip of a generated tx")
}

fn one_case(rep: &mut Report, rng: &mut Rng, info: &Value, kind: usize, replay_tx: Option<Vec<u8>>) {
    let tx0 = match replay_tx {
        Some(b) => Transaction::from_bytes(&b).expect("replay tx"),
        None => fresh(&g::free_tx(rng, kind, &FreeOpts { cap: 120, max_inputs: 4, max_outputs: 4, max_witnesses: 3, allow_empty_distinguishing: false })),
    };
    let chain = rng.word();
    let cid = ChainId::new(chain);
    let kname = g::tx_kind_name(&tx0);
    let replay = |extra: Value| json!({"info": info, "tx": hx(tx0.to_bytes()), "chain_id": chain.to_string(), "detail": extra});
    let id0 = match guarded(|| tx0.id(&cid)) {
        Ok(i) => i,
        Err(p) => {
            rep.violation(format!("C03|{kname}|id panics|{}", p.site()), p.text, || replay(json!(null)));
            return;
        }
    };
    rep.eval();
    // (a) reference id
    let want = reference_id(&tx0, chain);
    if *id0 != want {
        rep.violation(format!("C03|{kname}|id != sha256(chain_id_be || canonical(normalised tx))"), format!("id {} reference {}", hx(*id0), hx(want)), || replay(json!(null)));
    } else {
        rep.count("reference_id_matches");
    }
    // cached id after precompute == fresh id
    {
        let mut t = tx0.clone();
        let r = guarded(|| {
            t.precompute(&cid).map(|_| (t.cached_id(), t.id(&cid)))
        });
        match r {
            Ok(Ok((cached, idc))) => {
                rep.eval();
                if cached != Some(id0) || idc != id0 {
                    rep.violation(format!("C03|{kname}|cached id after precompute != fresh id"), format!("cached {cached:?} id() {idc} fresh {id0}"), || replay(json!(null)));
                }
            }
            Ok(Err(e)) => rep.count(&format!("precompute_error_{e:?}").chars().take(60).collect::<String>()),
            Err(p) => rep.violation(format!("C03|{kname}|precompute panics|{}", p.site()), p.text, || replay(json!(null))),
        }
    }
    // precompute, edit a non-malleable field in place (metadata stays attached), precompute
    // again (same or another chain id): the cached id must be the id of the new content
    {
        let ls: Vec<Lens> = lenses(&tx0).into_iter().filter(|l| !l.malleable).collect();
        if !ls.is_empty() {
            let l = &ls[rng.usize_below(ls.len())];
            let mut t = tx0.clone();
            let cid2 = if rng.bool() { cid } else { ChainId::new(chain ^ (1 << rng.below(64))) };
            let mut lrng = Rng::derive(rng.u64(), 1, 1);
            let r = guarded(|| {
                t.precompute(&cid)?;
                apply(&mut t, l, &mut lrng);
                t.precompute(&cid2)?;
                Ok::<_, fuel_tx::ValidityError>((t.cached_id(), fresh(&t).id(&cid2)))
            });
            match r {
                Ok(Ok((cached, want))) => {
                    rep.eval();
                    rep.count("reprecompute_checked");
                    if cached != Some(want) {
                        let shape: String = l.name.chars().filter(|c| !c.is_ascii_digit()).collect();
                        rep.violation(
                            format!("C03|{kname}|cached id after edit + second precompute != fresh id"),
                            format!("lens {shape}, same chain id: {}; cached {cached:?} fresh {want}", cid2 == cid),
                            || replay(json!({"reprecompute_lens": l.name})),
                        );
                    }
                }
                Ok(Err(_)) => rep.count("reprecompute_error"),
                Err(p) => rep.violation(format!("C03|{kname}|precompute panics|{}", p.site()), p.text, || replay(json!(null))),
            }
        }
    }
    // chain id lens
    {
        let other = ChainId::new(chain ^ (1 << rng.below(64)));
        rep.eval();
        if tx0.id(&other) == id0 {
            rep.violation(format!("C03|{kname}|chain_id|id unchanged by a non-malleable change"), "chain id".to_string(), || replay(json!("chain_id")));
        }
        rep.class(format!("{kname}|chain_id|non-malleable"));
    }
    // (b) single-field lenses
    for l in lenses(&tx0) {
        let mut t = tx0.clone();
        let mut lrng = Rng::derive(rng.u64(), 0, 0);
        apply(&mut t, &l, &mut lrng);
        let t = fresh(&t);
        if t == tx0 {
            rep.count("lens_did_not_change_value");
            continue;
        }
        rep.eval();
        let shape: String = l.name.chars().filter(|c| !c.is_ascii_digit()).collect();
        rep.class(format!("{kname}|{shape}|{}", if l.malleable { "malleable" } else { "non-malleable" }));
        let id1 = match guarded(|| t.id(&cid)) {
            Ok(i) => i,
            Err(p) => {
                rep.violation(format!("C03|{kname}|id panics|{}", p.site()), p.text, || replay(json!(l.name)));
                continue;
            }
        };
        if l.malleable && id1 != id0 {
            rep.violation(format!("C03|{kname}|{shape}|id changed by a malleable change"), format!("lens {}: {} -> {}", l.name, id0, id1), || replay(json!({"lens": l.name, "mutated": hx(t.to_bytes())})));
        }
        if !l.malleable && id1 == id0 {
            rep.violation(format!("C03|{kname}|{shape}|id unchanged by a non-malleable change"), format!("lens {}: id {}", l.name, id0), || replay(json!({"lens": l.name, "mutated": hx(t.to_bytes())})));
        }
        // the mutated transaction must also satisfy the reference formula
        let w1 = reference_id(&t, chain);
        if *id1 != w1 {
            rep.violation(format!("C03|{kname}|id != sha256(chain_id_be || canonical(normalised tx))"), format!("after lens {}: id {} reference {}", l.name, hx(*id1), hx(w1)), || replay(json!({"lens": l.name, "mutated": hx(t.to_bytes())})));
        }
    }
    rep.sample(|| json!({"kind": kname, "tx": hx(tx0.to_bytes()), "chain_id": chain.to_string(), "id": hx(*id0), "lenses": lenses(&tx0).len()}));
}

pub fn run(cfg: &Cfg) -> Report {
    if let Some(r) = &cfg.replay {
        let mut rep = Report::new();
        let mut rng = Rng::derive(cfg.seed, 3, 0);
        let tx = unhx(r["tx"].as_str().unwrap_or(""));
        one_case(&mut rep, &mut rng, &r["info"], 0, Some(tx));
        return rep;
    }
    let total = cfg.budget(3000, 150_000);
    let per = total / cfg.threads as u64;
    let mut rep = par(cfg.threads, |w| {
        let mut rep = Report::new();
        let info = json!({"seed": cfg.seed, "worker": w});
        for k in 0..per {
            let mut rng = Rng::derive(cfg.seed, 300 + w as u64, k);
            one_case(&mut rep, &mut rng, &info, k as usize % 6, None);
        }
        rep
    });
    rep.rule = "free-form transactions of all six kinds (>=0..4 inputs/outputs of every variant); reference id = sha256(chain_id_be || reference encoding of the tx with the malleable fields zeroed by the harness and witnesses removed); every field lens applied once per transaction: id must change iff the field is not malleable; cached id after precompute == fresh id. class = (tx kind, lens shape, malleable?)".into();
    rep.assume("malleable field list taken from the property statement; reference encoder refmodel::canon; sha2");
    rep.gate("reference_id_matches", rep.counter("reference_id_matches"), 100);
    rep.gate("classes", rep.classes.len() as u64, 150);
    rep
}
