//! C13 Sparse Merkle state persists completely in its node storage.
//!
//! A history is run on the storage-backed tree; at *every* position (the crash point) the
//! node storage is deep-cloned ("the database as persisted now") and a tree is re-loaded
//! from the clone at the current root. The re-loaded copy must generate the same proofs as
//! the original and, driven through the rest of the history side by side with the
//! original, show the same root (and the reference root) after every step. Further
//! variants started at sampled positions: `load` at the empty root on the dirty storage
//! (must behave like a fresh tree), the `nodes_from_set` output of the current map put
//! into a fresh storage, a `from_set` storage re-loaded, and node-deletion faults (root
//! node / an inner node / a leaf removed from the clone): a missing root node must make
//! `load` fail, any other missing node may surface as `Err` but never as a wrong `Ok`.
//! At every position the node table is also walked directly from the root (reading the
//! stored primitives, no tree code): a node that is referenced but not stored, or an `Err`
//! of the original tree on its own (infallible) storage, is incomplete persistence.

use super::smt_gen::{
    self as g,
    Key,
    Model,
    Op,
    Outcome,
    Store,
    Tree,
};
use crate::{
    Cfg,
    Report,
    Rng,
    bucket,
    guarded,
    hx,
    par,
    refmodel::{
        H,
        smt,
    },
};
use fuel_merkle::sparse::{
    in_memory::MerkleTree as MemTree,
    proof::Proof,
};
use serde_json::{
    Value,
    json,
};

#[derive(Clone, Copy, Debug, PartialEq, Eq)]
enum Variant {
    Reload,
    EmptyRoot,
    NodesFromSet,
    FromSetStorage,
    FaultRoot,
    FaultInner,
    FaultLeaf,
}

impl Variant {
    fn name(self) -> &'static str {
        match self {
            Variant::Reload => "reload",
            Variant::EmptyRoot => "load_empty_root_on_used_storage",
            Variant::NodesFromSet => "nodes_from_set_into_fresh_storage",
            Variant::FromSetStorage => "from_set_storage_reloaded",
            Variant::FaultRoot => "fault_root_node_deleted",
            Variant::FaultInner => "fault_inner_node_deleted",
            Variant::FaultLeaf => "fault_leaf_node_deleted",
        }
    }
    fn from_name(s: &str) -> Option<Variant> {
        [
            Variant::Reload,
            Variant::EmptyRoot,
            Variant::NodesFromSet,
            Variant::FromSetStorage,
            Variant::FaultRoot,
            Variant::FaultInner,
            Variant::FaultLeaf,
        ]
        .into_iter()
        .find(|v| v.name() == s)
    }
    fn is_fault(self) -> bool {
        matches!(self, Variant::FaultRoot | Variant::FaultInner | Variant::FaultLeaf)
    }
}

struct Focus {
    pos: usize,
    variant: Variant,
    node: Option<H>,
}

struct Case {
    ops: Vec<Op>,
    aux_seed: u64,
    focus: Option<Focus>,
}

struct Live {
    tree: Tree,
    variant: Variant,
    pos: usize,
    node: Option<H>,
    /// the empty-root variant follows its own model (starts empty at `pos`)
    own_model: Option<Model>,
    dead: bool,
}

fn replay_json(case: &Case, pos: usize, variant: Variant, node: Option<H>) -> Value {
    json!({
        "ops": g::ops_json(&case.ops),
        "aux_seed": case.aux_seed,
        "focus": {"pos": pos, "variant": variant.name(), "node": node.map(hx)},
    })
}

fn case_from_json(v: &Value) -> Case {
    let focus = v.get("focus").and_then(|f| {
        Some(Focus {
            pos: f.get("pos")?.as_u64()? as usize,
            variant: Variant::from_name(f.get("variant")?.as_str()?)?,
            node: f.get("node").and_then(|n| n.as_str()).and_then(g::key_from_hex),
        })
    });
    Case {
        ops: g::ops_from_json(&v["ops"]),
        aux_seed: v["aux_seed"].as_u64().unwrap_or(0),
        focus,
    }
}

fn sample_keys(rng: &mut Rng, model: &Model, universe: &[Key]) -> Vec<Key> {
    let mut out: Vec<Key> = Vec::new();
    let add = |out: &mut Vec<Key>, k: Key| {
        if !out.contains(&k) {
            out.push(k);
        }
    };
    let present = model.keys();
    if !present.is_empty() {
        add(&mut out, *rng.pick(&present));
        add(&mut out, *rng.pick(&present));
        let mut n = *rng.pick(&present);
        g::flip_bit(&mut n, *rng.pick(&[255usize, 254, 248, 128, 127, 9, 0]));
        add(&mut out, n);
    }
    let absent: Vec<Key> = universe.iter().filter(|k| !model.map.contains_key(*k)).copied().collect();
    if !absent.is_empty() {
        add(&mut out, *rng.pick(&absent));
        add(&mut out, *rng.pick(&absent));
    }
    match rng.below(4) {
        0 => add(&mut out, [0u8; 32]),
        1 => add(&mut out, [0xff; 32]),
        _ => add(&mut out, rng.arr()),
    }
    out
}

struct Ctx<'a> {
    case: &'a Case,
    rep: &'a mut Report,
}

impl Ctx<'_> {
    fn violation(&mut self, live_pos: usize, variant: Variant, node: Option<H>, sig: String, what: String) {
        let case = self.case;
        self.rep.violation(sig, what, || replay_json(case, live_pos, variant, node));
    }

    /// compare / judge the proofs of a live tree
    fn check_proofs(&mut self, live: &mut Live, when: &str, model: &Model, root: &H, orig_proofs: &[(Key, Proof)]) {
        if live.dead {
            return;
        }
        let v = live.variant;
        for (k, want) in orig_proofs {
            let presence = if model.map.contains_key(k) { "present_key" } else { "absent_key" };
            self.rep.count("proof_comparisons");
            match (g::proof_of(&live.tree, k), v) {
                (Ok(Ok(got)), Variant::EmptyRoot) => {
                    let m = live.own_model.as_ref().expect("own model");
                    if let Err(e) = m.judge_proof(&m.root(), k, &got) {
                        self.violation(
                            live.pos,
                            v,
                            live.node,
                            format!("C13|{}|proof does not match the tree's own contents|{when}", v.name()),
                            format!("tree loaded at the empty root at position {}: proof for {} ({when}): {e}", live.pos, hx(k)),
                        );
                        live.dead = true;
                    }
                }
                (Ok(Ok(got)), _) if v.is_fault() => match model.judge_proof(root, k, &got) {
                    Ok(_) => self.rep.count("fault_proof_ok_and_correct"),
                    Err(e) => {
                        self.violation(
                            live.pos,
                            v,
                            live.node,
                            format!("C13|{}|wrong Ok proof on incomplete storage|{presence}", v.name()),
                            format!(
                                "storage clone at position {} with node {} deleted: generate_proof({}) returned Ok but {e}",
                                live.pos,
                                live.node.map(hx).unwrap_or_default(),
                                hx(k)
                            ),
                        );
                        live.dead = true;
                    }
                },
                (Ok(Ok(got)), _) => {
                    if got != *want {
                        self.violation(
                            live.pos,
                            v,
                            live.node,
                            format!("C13|{}|proof differs from the original's|{presence}|{when}", v.name()),
                            format!(
                                "{} at position {}: generate_proof({}) ({when}) = {:?} but the original tree gives {:?}",
                                v.name(),
                                live.pos,
                                hx(k),
                                got,
                                want
                            ),
                        );
                        live.dead = true;
                    }
                }
                (Ok(Err(_)), _) if v.is_fault() => self.rep.count("fault_proof_err"),
                (Err(p), _) if v.is_fault() => {
                    self.rep.count("fault_proof_panic_(not_judged)");
                    self.rep.note(format!("generate_proof panicked on a storage with a deleted node: {}", p.text));
                    live.dead = true;
                }
                (Ok(Err(e)), _) => {
                    self.violation(
                        live.pos,
                        v,
                        live.node,
                        format!("C13|{}|generate_proof returned Err on complete storage|{when}", v.name()),
                        format!("{} at position {}: generate_proof({}) ({when}) = Err({e}), the original succeeds", v.name(), live.pos, hx(k)),
                    );
                    live.dead = true;
                }
                (Err(p), _) => {
                    self.violation(
                        live.pos,
                        v,
                        live.node,
                        format!("C13|{}|generate_proof panic|{}", v.name(), p.site()),
                        format!("{} at position {}: generate_proof({}) panicked: {}", v.name(), live.pos, hx(k), p.text),
                    );
                    live.dead = true;
                }
            }
        }
    }

    /// Create the variant at position `pos` (state: `store` snapshot source, `root`,
    /// `model`). Returns a live tree if there is one to continue with.
    fn spawn(
        &mut self,
        variant: Variant,
        pos: usize,
        follow: &'static str,
        store: &Store,
        root: &H,
        model: &Model,
        orig_proofs: &[(Key, Proof)],
        rng: &mut Rng,
        fixed_node: Option<H>,
    ) -> Option<Live> {
        let pairs = model.pairs();
        let mut node: Option<H> = None;
        let loaded: Result<Result<Tree, String>, crate::Panicked> = match variant {
            Variant::Reload => {
                let snap = store.deep_clone();
                guarded(|| Tree::load(snap, root).map_err(|e| format!("{e:?}")))
            }
            Variant::EmptyRoot => {
                let snap = store.deep_clone();
                guarded(|| Tree::load(snap, &smt::ZERO).map_err(|e| format!("{e:?}")))
            }
            Variant::NodesFromSet => {
                let r = guarded(|| MemTree::nodes_from_set(pairs.iter().map(|(k, v)| (g::mk(k), v.as_slice()))));
                match r {
                    Ok((r0, nodes)) => {
                        if r0 != *root {
                            self.rep.count("nodes_from_set_root_differs_(judged_by_C12)");
                            return None;
                        }
                        let st = Store::new();
                        for (k, p) in nodes {
                            st.inner.borrow_mut().insert(k, p);
                        }
                        self.rep.max("max_nodes_from_set_nodes", st.len() as u64);
                        guarded(|| Tree::load(st, &r0).map_err(|e| format!("{e:?}")))
                    }
                    Err(p) => Err(p),
                }
            }
            Variant::FromSetStorage => {
                let r = guarded(|| Tree::from_set(Store::new(), pairs.iter().map(|(k, v)| (*k, v.as_slice()))).map_err(|e| format!("{e:?}")));
                match r {
                    Ok(Ok(t)) => {
                        let r0 = t.root();
                        if r0 != *root {
                            self.rep.count("from_set_root_differs_(judged_by_C12)");
                            return None;
                        }
                        let st = t.into_storage().deep_clone();
                        guarded(|| Tree::load(st, &r0).map_err(|e| format!("{e:?}")))
                    }
                    Ok(Err(e)) => Ok(Err(e)),
                    Err(p) => Err(p),
                }
            }
            Variant::FaultRoot | Variant::FaultInner | Variant::FaultLeaf => {
                let snap = store.deep_clone();
                let (reach, _) = g::reachable(&snap, root);
                let mut cands: Vec<H> = reach
                    .iter()
                    .filter(|(h, leaf)| match variant {
                        Variant::FaultRoot => h == root,
                        Variant::FaultInner => h != root && !*leaf,
                        _ => h != root && *leaf,
                    })
                    .map(|(h, _)| *h)
                    .collect();
                cands.sort();
                let victim = match fixed_node {
                    Some(n) => n,
                    None => {
                        if cands.is_empty() {
                            self.rep.count("fault_kind_not_available_at_this_position");
                            return None;
                        }
                        *rng.pick(&cands)
                    }
                };
                if !snap.remove_key(&victim) {
                    self.rep.count("fault_node_not_in_storage");
                    return None;
                }
                node = Some(victim);
                guarded(|| Tree::load(snap, root).map_err(|e| format!("{e:?}")))
            }
        };

        self.rep.eval();
        self.rep.class(format!("pos={}|next={follow}|{}", bucket(pos as u64), variant.name()));
        self.rep.count(&format!("variant_{}", variant.name()));

        let tree = match (loaded, variant) {
            (Ok(Err(_)), Variant::FaultRoot) => {
                self.rep.count("load_failed_with_root_node_missing_(expected)");
                return None;
            }
            (Ok(Ok(_)), Variant::FaultRoot) => {
                self.violation(
                    pos,
                    variant,
                    node,
                    "C13|load succeeded at a root whose node is missing from storage".into(),
                    format!("position {pos}: root node {} deleted from the storage clone, load(root) returned Ok", hx(root)),
                );
                return None;
            }
            (Ok(Err(_)), v) if v.is_fault() => {
                self.rep.count("fault_load_err");
                return None;
            }
            (Err(p), v) if v.is_fault() => {
                self.rep.count("fault_load_panic_(not_judged)");
                self.rep.note(format!("load panicked on a storage with a deleted node: {}", p.text));
                return None;
            }
            (Ok(Ok(t)), _) => t,
            (Ok(Err(e)), v) => {
                self.violation(
                    pos,
                    v,
                    node,
                    format!("C13|{}|load failed on complete storage", v.name()),
                    format!("{} at position {pos} (root {}, {} entries): load returned Err({e})", v.name(), hx(root), model.len()),
                );
                return None;
            }
            (Err(p), v) => {
                self.violation(
                    pos,
                    v,
                    node,
                    format!("C13|{}|load panic|{}", v.name(), p.site()),
                    format!("{} at position {pos}: panicked: {}", v.name(), p.text),
                );
                return None;
            }
        };

        let mut live = Live {
            tree,
            variant,
            pos,
            node,
            own_model: (variant == Variant::EmptyRoot).then(Model::new),
            dead: false,
        };
        // the loaded tree's root
        let got = live.tree.root();
        let want = if variant == Variant::EmptyRoot { smt::ZERO } else { *root };
        if got != want {
            self.violation(
                pos,
                variant,
                node,
                format!("C13|{}|root after load differs", variant.name()),
                format!("{} at position {pos}: root after load {} expected {}", variant.name(), hx(got), hx(want)),
            );
            return None;
        }
        self.check_proofs(&mut live, "right after load", model, root, orig_proofs);
        Some(live)
    }

    /// apply the next operation of the history to a live tree and judge it
    fn step(&mut self, live: &mut Live, i: usize, op: &Op, kind: &'static str, orig_root: &H) {
        if live.dead {
            return;
        }
        let v = live.variant;
        self.rep.count("continued_operations");
        match g::apply_tree(&mut live.tree, op) {
            Outcome::Ok => {
                let got = live.tree.root();
                let (want, against) = match &mut live.own_model {
                    Some(m) => {
                        m.apply(op);
                        (m.root(), "the reference root of the operations applied since the empty load")
                    }
                    None => (*orig_root, "the original tree (= reference)"),
                };
                if got != want {
                    let (sig, what) = if v.is_fault() {
                        (
                            format!("C13|{}|wrong Ok: root != reference on incomplete storage|op={kind}", v.name()),
                            format!(
                                "storage clone at position {} with node {} deleted: op #{i} ({kind}) returned Ok with root {} but the reference root is {}",
                                live.pos,
                                live.node.map(hx).unwrap_or_default(),
                                hx(got),
                                hx(want)
                            ),
                        )
                    } else {
                        (
                            format!("C13|{}|root differs after further operations|op={kind}", v.name()),
                            format!(
                                "{} at position {}: after op #{i} ({kind}) root {} != {} of {against}",
                                v.name(),
                                live.pos,
                                hx(got),
                                hx(want)
                            ),
                        )
                    };
                    self.violation(live.pos, v, live.node, sig, what);
                    live.dead = true;
                } else if v.is_fault() {
                    self.rep.count("fault_op_ok_and_correct");
                }
            }
            Outcome::Err(_) if v.is_fault() => {
                self.rep.count("fault_op_err");
                live.dead = true;
            }
            Outcome::Panic(p) if v.is_fault() => {
                self.rep.count("fault_op_panic_(not_judged)");
                self.rep.note(format!("an operation panicked on a storage with a deleted node: {}", p.text));
                live.dead = true;
            }
            Outcome::Err(e) => {
                self.violation(
                    live.pos,
                    v,
                    live.node,
                    format!("C13|{}|{} returned Err on complete storage|op={kind}", v.name(), g::op_name(op)),
                    format!("{} at position {}: op #{i} ({kind}) returned Err({e}); the original tree succeeded", v.name(), live.pos),
                );
                live.dead = true;
            }
            Outcome::Panic(p) => {
                self.violation(
                    live.pos,
                    v,
                    live.node,
                    format!("C13|{}|panic|{}", v.name(), p.site()),
                    format!("{} at position {}: op #{i} ({kind}) panicked: {}", v.name(), live.pos, p.text),
                );
                live.dead = true;
            }
        }
    }
}

/// Proofs of the original for the sample. `Err` from the original means its own storage
/// lacks a node it references (the storage type is infallible): reported, case ends.
fn original_proofs(cx: &mut Ctx, pos: usize, orig: &Tree, keys: &[Key]) -> Option<Vec<(Key, Proof)>> {
    let mut v = Vec::new();
    for k in keys {
        match g::proof_of(orig, k) {
            Ok(Ok(p)) => v.push((*k, p)),
            Ok(Err(e)) => {
                cx.violation(
                    pos,
                    Variant::Reload,
                    None,
                    "C13|original tree|generate_proof returned Err on its own storage".into(),
                    format!("after {pos} operations generate_proof({}) on the original tree returned Err({e}): its node storage is incomplete", hx(k)),
                );
                return None;
            }
            Err(_) => {
                cx.rep.count("original_generate_proof_panicked_(judged_by_C14)");
            }
        }
    }
    Some(v)
}

fn run_case(rep: &mut Report, case: &Case) {
    let ops = &case.ops;
    let n = ops.len();
    let universe = g::keys_of(ops);
    let store = Store::new();
    let mut orig = Tree::new(store.clone());
    let mut model = Model::new();
    let mut lives: Vec<Live> = Vec::new();
    let mut cx = Ctx { case, rep };
    let mut last_kind: &'static str = "start";

    for p in 0..=n {
        let root = orig.root();
        if root != model.root() {
            cx.rep.count("original_root_differs_from_reference_(judged_by_C12)");
            return;
        }
        let follow = if p < n { model.kind_of(&ops[p]).name() } else { "none" };
        let mut rng = Rng::derive(case.aux_seed, 0xC13, p as u64);
        let keys = sample_keys(&mut rng, &model, &universe);
        {
            // completeness of the persisted state, read directly from the node table
            let (reach, dangling) = g::reachable(&store, &root);
            cx.rep.count("storage_completeness_walks");
            cx.rep.max("max_storage_nodes", store.len() as u64);
            cx.rep.max("max_storage_nodes_unreachable_from_root", (store.len().saturating_sub(reach.len())) as u64);
            if let Some(d) = dangling.first() {
                let after = last_kind;
                cx.violation(
                    p,
                    Variant::Reload,
                    None,
                    format!("C13|node referenced by the tree is missing from its storage|after={after}"),
                    format!(
                        "after {p} operations (last: {after}) the node table lacks node {} which is referenced from root {} ({} of {} stored nodes reachable): a tree loaded from this storage cannot serve the paths through it",
                        hx(d),
                        hx(root),
                        reach.len(),
                        store.len()
                    ),
                );
                return;
            }
        }

        let orig_proofs = match original_proofs(&mut cx, p, &orig, &keys) {
            Some(v) => v,
            None => return,
        };

        // which variants start here
        let mut variants: Vec<(Variant, Option<H>)> = Vec::new();
        match &case.focus {
            Some(f) => {
                if f.pos == p {
                    variants.push((f.variant, f.node));
                }
            }
            None => {
                variants.push((Variant::Reload, None));
                if p > 0 && rng.chance(1, 8) {
                    variants.push((Variant::EmptyRoot, None));
                }
                if rng.chance(1, 6) || p == n {
                    variants.push((Variant::NodesFromSet, None));
                }
                if rng.chance(1, 12) {
                    variants.push((Variant::FromSetStorage, None));
                }
                if !model.is_empty() && rng.chance(1, 3) {
                    let k = *rng.pick(&[Variant::FaultRoot, Variant::FaultInner, Variant::FaultInner, Variant::FaultLeaf, Variant::FaultLeaf]);
                    variants.push((k, None));
                }
            }
        }
        for (v, node) in variants {
            if let Some(l) = cx.spawn(v, p, follow, &store, &root, &model, &orig_proofs, &mut rng, node) {
                lives.push(l);
            }
        }
        if p == n {
            // end of the history: proofs of every surviving copy against the original
            for l in lives.iter_mut() {
                if l.pos < n {
                    cx.check_proofs(l, "at the end of the history", &model, &root, &orig_proofs);
                }
            }
            break;
        }

        // next operation on the original and on every live copy
        let op = &ops[p];
        let kind = model.apply(op).name();
        match g::apply_tree(&mut orig, op) {
            Outcome::Ok => {}
            Outcome::Err(e) => {
                cx.violation(
                    p,
                    Variant::Reload,
                    None,
                    format!("C13|original tree|{} returned Err on its own storage|op={kind}", g::op_name(op)),
                    format!("op #{p} ({kind}) on the original tree returned Err({e}): its node storage is incomplete (the storage itself cannot fail)"),
                );
                return;
            }
            Outcome::Panic(_) => {
                cx.rep.count("original_operation_panicked_(judged_by_C12)");
                return;
            }
        }
        last_kind = kind;
        let orig_root = orig.root();
        if orig_root != model.root() {
            cx.rep.count("original_root_differs_from_reference_(judged_by_C12)");
            return;
        }
        for l in lives.iter_mut() {
            cx.step(l, p, op, kind, &orig_root);
        }
        lives.retain(|l| !l.dead);
    }
    cx.rep.count("histories");
    cx.rep.max("max_history_len", n as u64);
    cx.rep.sample(|| {
        json!({
            "ops": g::ops_json(&ops[..n.min(5)]),
            "ops_total": n,
            "reload_points": n + 1,
            "final_root": hx(model.root()),
            "final_size": model.len(),
        })
    });
}

pub fn run(cfg: &Cfg) -> Report {
    let mut rep = if let Some(rec) = &cfg.replay {
        let mut r = Report::new();
        let case = case_from_json(rec);
        run_case(&mut r, &case);
        r.note(format!(
            "replayed one history of {} operations{}",
            case.ops.len(),
            case.focus.as_ref().map(|f| format!(", variant {} at position {}", f.variant.name(), f.pos)).unwrap_or_default()
        ));
        r
    } else {
        let total = cfg.budget(5_000, 50_000);
        let threads = cfg.threads.max(1) as u64;
        let mut rep = par(cfg.threads, |w| {
            let mut r = Report::new();
            let n = total / threads + u64::from((w as u64) < total % threads);
            for i in 0..n {
                let mut rng = Rng::derive(cfg.seed, 0x0C13_0000 + w as u64, i);
                let u = g::gen_universe(&mut rng);
                let ops = g::gen_history(&mut rng, &u);
                let case = Case { ops, aux_seed: rng.u64(), focus: None };
                run_case(&mut r, &case);
            }
            r
        });
        rep.gate("histories", rep.counter("histories"), total.min(500));
        rep.gate("classes", rep.classes.len() as u64, 60);
        for k in [
            "variant_reload",
            "variant_load_empty_root_on_used_storage",
            "variant_nodes_from_set_into_fresh_storage",
            "variant_from_set_storage_reloaded",
            "variant_fault_root_node_deleted",
            "variant_fault_inner_node_deleted",
            "variant_fault_leaf_node_deleted",
            "load_failed_with_root_node_missing_(expected)",
            "fault_op_err",
            "fault_op_ok_and_correct",
            "proof_comparisons",
            "continued_operations",
            "storage_completeness_walks",
        ] {
            rep.gate(k, rep.counter(k), 1);
        }
        rep
    };
    rep.rule = "one evaluation = one (history, reload position, variant); at every position the node table is first walked from the root for referenced-but-missing nodes; then: the node storage is deep-cloned at the position, a tree is loaded from the clone (variants: plain reload at the current root [every position], load at the empty root on the used storage, nodes_from_set output in a fresh storage, from_set storage re-loaded, root/inner/leaf node deleted from the clone), its proofs for sampled present/absent keys are compared with the original's and it is driven through the rest of the history next to the original with roots compared after every step; class = (position bucket, kind of the following operation, variant/fault kind)".into();
    rep.assume("reference: compact sparse Merkle root / reference proof verifier (refmodel::smt); sha2 trusted");
    rep.assume("SharedMap::deep_clone of the node table is taken as 'the persisted database at this point'");
    rep.note("with a deleted non-root node: Err (from load, an operation or generate_proof) ends that copy; Ok results must equal the reference (root) or verify under the reference verifier (proof); panics on such storages are counted, not judged");
    rep.note("nodes the storage holds beyond those reachable from the root are reported as max_storage_nodes_unreachable_from_root (informational)");
    rep
}
