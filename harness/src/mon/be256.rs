//! 256-bit big-endian byte arithmetic and curve constants, written by hand so that the
//! crypto monitors (C16, C17) can construct and classify boundary signatures without
//! calling the code under test.
use std::cmp::Ordering;

pub type B32 = [u8; 32];

pub const fn hex32(s: &str) -> B32 {
    let b = s.as_bytes();
    assert!(b.len() == 64);
    let mut out = [0u8; 32];
    let mut i = 0;
    while i < 32 {
        out[i] = (nib(b[2 * i]) << 4) | nib(b[2 * i + 1]);
        i += 1;
    }
    out
}

const fn nib(c: u8) -> u8 {
    match c {
        b'0'..=b'9' => c - b'0',
        b'a'..=b'f' => c - b'a' + 10,
        b'A'..=b'F' => c - b'A' + 10,
        _ => panic!("bad hex digit"),
    }
}

/// order of the secp256k1 group
pub const K1_N: B32 = hex32("FFFFFFFFFFFFFFFFFFFFFFFFFFFFFFFEBAAEDCE6AF48A03BBFD25E8CD0364141");
/// field prime of secp256k1
pub const K1_P: B32 = hex32("FFFFFFFFFFFFFFFFFFFFFFFFFFFFFFFFFFFFFFFFFFFFFFFFFFFFFFFEFFFFFC2F");
/// x-coordinate of the secp256k1 generator
pub const K1_GX: B32 = hex32("79BE667EF9DCBBAC55A06295CE870B07029BFCDB2DCE28D959F2815B16F81798");
/// order of the secp256r1 (P-256) group
pub const R1_N: B32 = hex32("FFFFFFFF00000000FFFFFFFFFFFFFFFFBCE6FAADA7179E84F3B9CAC2FC632551");
/// field prime of secp256r1
pub const R1_P: B32 = hex32("FFFFFFFF00000001000000000000000000000000FFFFFFFFFFFFFFFFFFFFFFFF");
/// order of the Ed25519 prime-order subgroup, little-endian as it appears in signatures
pub const ED_L_LE: B32 = [
    0xed, 0xd3, 0xf5, 0x5c, 0x1a, 0x63, 0x12, 0x58, 0xd6, 0x9c, 0xf7, 0xa2, 0xde, 0xf9, 0xde, 0x14,
    0, 0, 0, 0, 0, 0, 0, 0, 0, 0, 0, 0, 0, 0, 0, 0x10,
];

pub const ZERO: B32 = [0u8; 32];
pub const MAX: B32 = [0xff; 32];
/// 2^255
pub const TOP: B32 = {
    let mut a = [0u8; 32];
    a[0] = 0x80;
    a
};

pub fn from_u64(v: u64) -> B32 {
    let mut a = [0u8; 32];
    a[24..].copy_from_slice(&v.to_be_bytes());
    a
}

pub fn cmp(a: &B32, b: &B32) -> Ordering {
    a.cmp(b)
}

pub fn lt(a: &B32, b: &B32) -> bool {
    a < b
}

pub fn is_zero(a: &B32) -> bool {
    a.iter().all(|x| *x == 0)
}

/// a + b mod 2^256, carry out
pub fn add(a: &B32, b: &B32) -> (B32, bool) {
    let mut out = [0u8; 32];
    let mut c = 0u16;
    for i in (0..32).rev() {
        let t = a[i] as u16 + b[i] as u16 + c;
        out[i] = t as u8;
        c = t >> 8;
    }
    (out, c != 0)
}

/// a - b mod 2^256, borrow out
pub fn sub(a: &B32, b: &B32) -> (B32, bool) {
    let mut out = [0u8; 32];
    let mut br = 0i16;
    for i in (0..32).rev() {
        let mut t = a[i] as i16 - b[i] as i16 - br;
        if t < 0 {
            t += 256;
            br = 1;
        } else {
            br = 0;
        }
        out[i] = t as u8;
    }
    (out, br != 0)
}

pub fn add_u64(a: &B32, v: u64) -> B32 {
    add(a, &from_u64(v)).0
}

pub fn sub_u64(a: &B32, v: u64) -> B32 {
    sub(a, &from_u64(v)).0
}

/// floor(a / 2)
pub fn shr1(a: &B32) -> B32 {
    let mut out = [0u8; 32];
    let mut c = 0u8;
    for i in 0..32 {
        out[i] = (a[i] >> 1) | (c << 7);
        c = a[i] & 1;
    }
    out
}

/// little-endian a + b (for Ed25519 scalars), carry out
pub fn add_le(a: &B32, b: &B32) -> (B32, bool) {
    let mut out = [0u8; 32];
    let mut c = 0u16;
    for i in 0..32 {
        let t = a[i] as u16 + b[i] as u16 + c;
        out[i] = t as u8;
        c = t >> 8;
    }
    (out, c != 0)
}

/// `lo <= a <= hi`
pub fn within(a: &B32, lo: &B32, hi: &B32) -> bool {
    a >= lo && a <= hi
}

#[cfg(test)]
mod tests {
    use super::*;
    #[test]
    fn arith() {
        let one = from_u64(1);
        assert_eq!(add(&MAX, &one), (ZERO, true));
        assert_eq!(sub(&ZERO, &one), (MAX, true));
        let half = shr1(&K1_N);
        let (twice, c) = add(&half, &half);
        assert!(!c);
        assert_eq!(add_u64(&twice, 1), K1_N);
        assert!(lt(&half, &TOP));
        assert!(lt(&K1_N, &K1_P));
    }
}
