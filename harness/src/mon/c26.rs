//! C26 Gas is charged monotonically and never exceeds the limit.
//!
//! Step monitor on the bus: at every instruction boundary the gas registers are compared
//! with the invariants of the property and, for every instruction the reference schedule
//! evaluator (`refmodel::gas`) models, the decrease of `$ggas` with the charge the gas
//! schedule prescribes for the operands found in the pre-state.
use super::grp_e::{
    Drive,
    drive,
};
use crate::{
    Cfg,
    Report,
    Rng,
    prog::Weights,
    refmodel::gas::{
        Level,
        RefCharge,
        Shadow,
        reference,
        schedule_kind,
    },
    scenario::{
        Scenario,
        ScenarioOpts,
    },
    stepbus::{
        BusOpts,
        Snap,
        Step,
        StepEnd,
        StepMonitor,
    },
    world::{
        Outcome,
        Vm,
        World,
    },
};
use fuel_asm::{
    Instruction,
    PanicReason,
    RegId,
};
use fuel_tx::{
    Receipt,
    Script,
};
use serde_json::{
    Value,
    json,
};
use std::collections::HashSet;

struct GasMon {
    sched: &'static str,
    gas_limit: u64,
    shadow: Shadow,
    /// per open frame: caller's `$cgas` after the CALL charges minus the forwarded amount
    saved: Vec<u64>,
    /// the frame stack above is aligned with the VM's call depth
    in_sync: bool,
    /// coverage classes already reported for this case
    seen: HashSet<(String, &'static str, &'static str)>,
}

impl GasMon {
    fn new(sc: &Scenario) -> Self {
        let sched = schedule_kind(sc.info["schedule"].as_u64().unwrap_or(0) as u8);
        Self { sched, gas_limit: sc.spec.gas_limit, shadow: Shadow::new(&sc.world), saved: vec![], in_sync: true, seen: HashSet::new() }
    }
}

fn is_jump(i: &Instruction) -> bool {
    use Instruction as I;
    matches!(
        i,
        I::JI(_) | I::JNEI(_) | I::JNZI(_) | I::JMP(_) | I::JNE(_) | I::JMPF(_) | I::JMPB(_) | I::JNZF(_) | I::JNZB(_) | I::JNEF(_) | I::JNEB(_) | I::JAL(_)
    )
}

fn describe(s: &Step, sched: &str, charge: i128, rc: &RefCharge) -> String {
    format!(
        "{:?} at pc {} (schedule {sched}, depth {}→{}): $cgas {}→{}, $ggas {}→{}, charged {charge}; reference stages {:?} (complete={}{}{}), end {:?}, own panic {:?}",
        s.instr,
        s.pre.pc(),
        s.pre.depth,
        s.post.depth,
        s.pre.cgas(),
        s.post.cgas(),
        s.pre.ggas(),
        s.post.ggas(),
        rc.stages,
        rc.complete,
        if rc.note.is_empty() { "" } else { ", " },
        rc.note,
        s.end,
        s.own_panic(),
    )
}

impl StepMonitor for GasMon {
    fn on_start(&mut self, _w: &World, first: &Snap, _tx: &Script, rep: &mut Report) {
        rep.count("runs_started");
        if first.ggas() != self.gas_limit || first.cgas() != self.gas_limit {
            rep.violation(
                "C26|init|$ggas/$cgas at the first instruction != script gas limit",
                format!("$ggas {} $cgas {} limit {}", first.ggas(), first.cgas(), self.gas_limit),
                || json!(null),
            );
        }
    }

    fn on_step(&mut self, w: &World, s: &Step, rep: &mut Report) {
        let (pre, post) = (s.pre, s.post);
        let name = s.opcode_name();
        let sched = self.sched;
        let charge: i128 = pre.ggas() as i128 - post.ggas() as i128;
        let dcgas: i128 = pre.cgas() as i128 - post.cgas() as i128;
        let frame_op = matches!(&s.instr, Some(Instruction::CALL(_) | Instruction::RET(_) | Instruction::RETD(_)));
        let empty = RefCharge { level: Level::Unmodelled, stages: vec![], complete: false, note: "" };

        // a broken invariant is reported at the step that introduces it; what follows a
        // corrupt state is not judged
        if pre.cgas() > pre.ggas() || pre.ggas() > self.gas_limit {
            rep.count("steps_after_a_broken_invariant_not_judged");
            return;
        }
        // ---- (1) invariants at every boundary
        if post.cgas() > post.ggas() {
            rep.violation(format!("C26|{name}|$cgas > $ggas at the boundary"), describe(s, sched, charge, &empty), || json!(null));
        }
        if post.ggas() > pre.ggas() {
            rep.violation(format!("C26|{name}|$ggas increased"), describe(s, sched, charge, &empty), || json!(null));
        }
        if post.ggas() > self.gas_limit {
            rep.violation(format!("C26|{name}|$ggas above the script gas limit"), describe(s, sched, charge, &empty), || json!(null));
        }
        let own_oog = matches!(s.own_panic(), Some(PanicReason::OutOfGas));
        if !frame_op && !own_oog && pre.depth == post.depth && charge != dcgas {
            rep.violation(
                format!("C26|{name}|$cgas and $ggas decreased by different amounts inside one frame"),
                describe(s, sched, charge, &empty),
                || json!(null),
            );
        }
        rep.count("steps_invariants_checked");

        let Some(instr) = &s.instr else {
            rep.count("steps_undecodable_instruction");
            self.shadow.observe_accesses(None, pre, s.accesses);
            return;
        };
        if matches!(s.end, StepEnd::Error(_)) {
            rep.count("steps_ending_in_interpreter_error");
            return;
        }
        if pre.pc() < pre.is() || pre.pc() >= pre.ssp() {
            rep.count("steps_outside_executable_region");
            return;
        }

        // ---- the reference charge for this instruction in this state
        let rc = reference(instr, pre, w, &mut self.shadow);
        self.shadow.observe_accesses(Some(instr), pre, s.accesses);
        let own = s.own_panic();
        let outcome: &'static str = match own {
            None => "paid",
            Some(PanicReason::OutOfGas) => "out-of-gas",
            Some(_) => "other-panic",
        };
        if self.seen.insert((name.clone(), outcome, rc.level.tag())) {
            rep.class(format!("{name}|{sched}|{outcome}|{}", rc.level.tag()));
        }
        let cgas_pre = pre.cgas() as u128;

        if s.ambiguous_self_jump() {
            // the debugger may let an instruction that jumps to itself run more than once
            // between two events: record what is seen, judge nothing but the invariants
            rep.count("unjudged_self_jump_steps");
            if rc.complete && charge >= 0 {
                let t = rc.total();
                let k = if charge as u128 == t {
                    "self_jump_charge_1x"
                } else if charge as u128 == 2 * t {
                    "self_jump_charge_2x"
                } else {
                    "self_jump_charge_other"
                };
                rep.count(k);
            }
            return;
        }

        match own {
            // ---- (2) the instruction completed: exact charge
            None => {
                rep.eval();
                match rc.level {
                    Level::Full if rc.complete => {
                        if charge != rc.total() as i128 {
                            rep.violation(format!("C26|{name}|charge differs from the gas schedule"), describe(s, sched, charge, &rc), || json!(null));
                        } else {
                            rep.count("steps_exact_charge_checked");
                            rep.count(&format!("exact_op_{name}"));
                            if rc.stages.len() > 1 {
                                rep.count("steps_exact_multi_stage");
                            }
                        }
                    }
                    Level::Full => {
                        rep.count("unjudged_completed_with_incomplete_reference");
                        rep.note(format!("completed {name} with an incomplete reference ({}): not judged", rc.note));
                    }
                    Level::Partial => {
                        rep.count(&format!("partially_checked_{name}"));
                        if charge < rc.total() as i128 {
                            rep.violation(format!("C26|{name}|charged less than the base cost"), describe(s, sched, charge, &rc), || json!(null));
                        }
                    }
                    Level::Unmodelled => {
                        rep.count(&format!("unmodelled_{name}"));
                    }
                }
                // ---- (4) frames
                if let Instruction::CALL(o) = instr {
                    if post.depth == pre.depth + 1 && charge >= 0 {
                        let rd = pre.regs[o.unpack().3.to_u8() as usize];
                        if charge as u128 > cgas_pre {
                            rep.violation("C26|CALL|charged more than the available $cgas without OutOfGas", describe(s, sched, charge, &rc), || json!(null));
                            self.in_sync = false;
                        } else {
                            let after = pre.cgas() - charge as u64;
                            let fwd = after.min(rd);
                            if post.cgas() != fwd {
                                rep.violation(
                                    "C26|CALL|callee $cgas != min(caller $cgas after the charges, forwarded gas)",
                                    format!("forwarded register {rd}, caller $cgas after the charges {after}; {}", describe(s, sched, charge, &rc)),
                                    || json!(null),
                                );
                            }
                            rep.count("call_steps_checked");
                            if rep.samples.len() < 2 {
                                rep.sample(|| json!({"check": "CALL forwarding", "schedule": sched, "forward_register": rd, "caller_cgas_after_charges": after, "callee_cgas": post.cgas(), "step": describe(s, sched, charge, &rc)}));
                            }
                            rep.count(if rd >= after { "call_forwards_everything" } else { "call_forwards_part" });
                            self.saved.push(after.saturating_sub(post.cgas()));
                        }
                        if self.saved.len() != post.depth {
                            self.in_sync = false;
                        }
                    } else {
                        self.in_sync = false;
                    }
                } else if matches!(instr, Instruction::RET(_) | Instruction::RETD(_)) && post.depth + 1 == pre.depth {
                    let saved = self.saved.pop();
                    if !self.in_sync || self.saved.len() != post.depth || charge < 0 {
                        rep.count("unjudged_return_steps_out_of_sync");
                    } else if let Some(saved) = saved {
                        if charge as u128 > cgas_pre {
                            rep.violation(format!("C26|{name}|charged more than the available $cgas without OutOfGas"), describe(s, sched, charge, &rc), || json!(null));
                        } else {
                            let rest = pre.cgas() - charge as u64;
                            let want = saved as u128 + rest as u128;
                            if post.cgas() as u128 != want {
                                rep.violation(
                                    format!("C26|{name}|caller $cgas after return != saved $cgas + callee's remaining gas"),
                                    format!("saved {saved}, callee rest {rest}, expected {want}; {}", describe(s, sched, charge, &rc)),
                                    || json!(null),
                                );
                            }
                            rep.count("return_steps_checked");
                            if rep.samples.len() < 3 {
                                rep.sample(|| json!({"check": "return credits unspent gas", "schedule": sched, "saved_caller_cgas": saved, "callee_rest": rest, "caller_cgas_after": post.cgas(), "step": describe(s, sched, charge, &rc)}));
                            }
                            if rest > 0 {
                                rep.count("return_steps_with_unspent_gas");
                            }
                        }
                    }
                } else if pre.depth != post.depth {
                    rep.violation(format!("C26|{name}|call depth changed by an instruction other than CALL/RET/RETD"), describe(s, sched, charge, &rc), || json!(null));
                }
            }
            // ---- (3) out of gas
            Some(PanicReason::OutOfGas) => {
                rep.eval();
                rep.count("oog_steps");
                if post.cgas() != 0 {
                    rep.violation("C26|OutOfGas|$cgas not zero after OutOfGas", describe(s, sched, charge, &rc), || json!(null));
                }
                if charge != cgas_pre as i128 {
                    rep.violation("C26|OutOfGas|$ggas after OutOfGas != $ggas - $cgas before", describe(s, sched, charge, &rc), || json!(null));
                }
                // a taken jump to itself may have run once successfully before it ran out
                let times: u128 = if is_jump(instr) { 2 } else { 1 };
                let known = rc.total() * times;
                match rc.level {
                    Level::Full if rc.complete => {
                        rep.count("oog_steps_judged");
                        rep.count(&format!("oog_op_{name}"));
                        if rc.stages.len() > 1 && rc.stages[0] <= cgas_pre {
                            rep.count("oog_steps_in_a_later_stage");
                            if rep.samples.len() < 4 {
                                rep.sample(|| json!({"check": "OutOfGas in a later charge stage", "schedule": sched, "step": describe(s, sched, charge, &rc)}));
                            }
                        }
                        if known <= cgas_pre {
                            rep.violation(format!("C26|{name}|OutOfGas although the cost does not exceed $cgas"), describe(s, sched, charge, &rc), || json!(null));
                        }
                    }
                    Level::Full | Level::Partial => {
                        if known > cgas_pre {
                            rep.count("oog_steps_justified_by_known_prefix");
                        } else {
                            rep.count("unjudged_oog_steps_incomplete_reference");
                        }
                    }
                    Level::Unmodelled => rep.count("unjudged_oog_steps_unmodelled"),
                }
            }
            // ---- another panic of the instruction itself: the unconditional first charge
            // must have been affordable, otherwise OutOfGas comes first
            Some(_) => {
                rep.count("other_panic_steps");
                if let Some(first) = rc.first() {
                    if first > cgas_pre {
                        rep.violation(format!("C26|{name}|no OutOfGas although the first charge exceeds $cgas"), describe(s, sched, charge, &rc), || json!(null));
                    }
                    // observation only (not judged): how much a panicking instruction paid
                    if charge >= 0 && (charge as u128) < first {
                        rep.count("observed_panicking_step_paid_less_than_first_charge");
                    } else if rc.complete && charge > rc.total() as i128 {
                        rep.count("observed_panicking_step_paid_more_than_full_charge");
                    }
                }
            }
        }
    }

    fn on_finish(&mut self, _w: &World, out: &Outcome, _vm: &Vm, rep: &mut Report) {
        check_final(self.gas_limit, out, rep, &json!(null));
        if self.shadow.balances_tainted {
            rep.count("runs_with_untracked_balance_entries");
        }
        if self.shadow.storage_tainted {
            rep.count("runs_with_untracked_contract_state");
        }
    }
}

/// (5) `ScriptResult.gas_used == script gas limit - final $ggas`
fn check_final(gas_limit: u64, out: &Outcome, rep: &mut Report, replay: &Value) {
    if out.state.is_err() {
        return;
    }
    let ggas = out.registers[RegId::GGAS.to_u8() as usize];
    let cgas = out.registers[RegId::CGAS.to_u8() as usize];
    match out.receipts.last() {
        Some(Receipt::ScriptResult { gas_used, .. }) => {
            rep.count("final_gas_used_checked");
            if cgas != ggas {
                rep.count("final_gas_used_checked_with_cgas_below_ggas");
            }
            if (*gas_used as u128) + (ggas as u128) != gas_limit as u128 {
                rep.violation(
                    "C26|ScriptResult.gas_used != script gas limit - final $ggas",
                    format!("gas_used {gas_used}, limit {gas_limit}, final $ggas {ggas}, final $cgas {cgas}"),
                    || replay.clone(),
                );
            }
        }
        _ => rep.count("finished_without_script_result"),
    }
}

pub fn run(cfg: &Cfg) -> Report {
    let opts = |idx: u64, _rng: &mut Rng| {
        let mut w = Weights::default();
        w.call = 10;
        w.storage = 10;
        w.money = 8;
        w.heap = 6;
        w.crypto = 3;
        w.wide = 3;
        w.query = 6;
        w.ldc = 2;
        let schedule = [0u8, 1, 3][(idx % 3) as usize];
        ScenarioOpts { weights: w.clone(), contract_weights: w, schedule, tight_gas: 300, mid_gas: 450, ..Default::default() }
    };
    let mons = |sc: &Scenario| -> Vec<Box<dyn StepMonitor>> { vec![Box::new(GasMon::new(sc))] };
    let after = |sc: &Scenario, plain: &Outcome, _stepped: &Outcome, replay: &Value, rep: &mut Report| {
        check_final(sc.spec.gas_limit, plain, rep, replay);
    };
    let d = Drive {
        prop: "C26",
        stream: 26,
        quick: 60_000,
        thorough: 1_500_000,
        bus: BusOpts { capture_mem: true, max_steps: 30_000 },
        opts: &opts,
        monitors: &mons,
        after: Some(&after),
    };
    let mut rep = drive(cfg, &d);
    rep.rule = "every single-stepped instruction of generated scripts/contracts under the default, unit and randomised gas schedules with tight/medium/ample gas limits: (1) $cgas <= $ggas <= limit, $ggas never increases, equal decrease of both inside a frame; (2) $ggas decrease of a completed instruction == charge computed by the reference schedule evaluator (refmodel::gas: base cost, Light/Heavy dependent cost on the documented unit count, object-size stages of CALL/LDC/CCP/CSIZ/CROO/BSIZ/BLDD, new-balance-entry surcharge of CALL/TR/MINT, hot/cold read + write + new-bytes + clear charges of the contract-state instructions from a shadow of slot lengths); (3) OutOfGas leaves $cgas = 0 and $ggas reduced by the old $cgas, and happens only if the reference cost exceeds $cgas, and always when the first charge exceeds $cgas; (4) CALL: callee $cgas = min(caller $cgas after charges, $rD), return: caller $cgas = saved + callee's rest (shadow stack); (5) ScriptResult.gas_used = limit - final $ggas (plain and stepped run). class = (opcode, schedule kind, paid / out-of-gas / other-panic, full / partial / unmodelled)".into();
    rep.assume("gas schedule parameters are read through the schedule's accessor functions (GasCosts::<op>()); which accessor belongs to which opcode is part of the reference model (JAL uses jmp, CFS uses cfsi, LQW/LHW use lw, SQW/SHW use sw, contract-state instructions pay noop first)");
    rep.assume("DependentCost: LightOperation = base + floor(units / units_per_gas), HeavyOperation = base + units * gas_per_unit (from the type's documentation)");
    rep.assume("world state needed by the reference (contract code sizes, blob sizes, initial balance entries and slot lengths) is read from the harness's own world description / MemoryStorage before the run");
    rep.note("panicking instructions (other than OutOfGas) are judged only on the invariants and on 'OutOfGas comes first when the first charge is unaffordable'; how much they paid is recorded, not judged");
    rep.note("ECAL (handler-defined) is unmodelled; steps of a taken self-jump under single-stepping are judged on the invariants only");
    if cfg.replay.is_none() {
        let distinct = rep.counters.keys().filter(|k| k.starts_with("exact_op_")).count() as u64;
        // gates follow a reduced budget (`--scale` below 1)
        let f = cfg.scale.min(1.0);
        let g = |n: u64| ((n as f64) * f) as u64;
        rep.gate("distinct_fully_modelled_opcodes_checked", distinct, if f >= 0.5 { 115 } else { 100 });
        rep.gate("steps_exact_charge_checked", rep.counter("steps_exact_charge_checked"), g(300_000));
        rep.gate("oog_steps", rep.counter("oog_steps"), g(2000));
        rep.gate("oog_steps_in_a_later_stage", rep.counter("oog_steps_in_a_later_stage"), g(50));
        rep.gate("call_steps_checked", rep.counter("call_steps_checked"), g(3000));
        rep.gate("return_steps_checked", rep.counter("return_steps_checked"), g(1500));
        rep.gate("final_gas_used_checked", rep.counter("final_gas_used_checked"), g(1000));
    }
    rep
}
