//! C14 Sparse Merkle proofs prove membership and non-membership exactly.
//!
//! Trees are reached by C12-style histories (clustered keys, built with deletes). For
//! query keys (every present key, neighbours differing in one late bit, absent keys
//! inside and outside the clusters) `generate_proof` must return an inclusion proof
//! exactly for present keys; the proof must verify (inclusion: with the stored value and
//! not with another one). Every (root, key, proof set, value / exclusion leaf) tuple —
//! the generated ones and structured mutations of them — is given to the library's
//! `InclusionProof::verify` / `ExclusionProof::verify` and to the reference verifier
//! (`refmodel::smt`: compact-tree recomputation along the key's path); the verdicts must
//! agree, a panic is a violation. Independently of the reference verifier, an accepted
//! tuple against the tree's real root must be semantically true for the model map.
//!
//! proof_set order: the library stores side hashes leaf→root (`path_set` reverses the
//! root→leaf walk; `verify` uses bit `len-1-i` of the key for element `i`), which is the
//! order `refmodel::smt::fold_up` expects, so no conversion is needed.

use super::smt_gen::{
    self as g,
    Key,
    Model,
    Op,
    Outcome,
    Store,
    Tree,
};
use crate::{
    Cfg,
    Panicked,
    Report,
    Rng,
    bucket,
    guarded,
    hx,
    par,
    refmodel::{
        H,
        smt::{
            self,
            ExLeaf,
        },
    },
    unhx,
};
use fuel_merkle::sparse::proof::{
    ExclusionLeaf,
    ExclusionLeafData,
    ExclusionProof,
    InclusionProof,
    Proof,
};
use serde_json::{
    Value,
    json,
};

#[derive(Clone, Debug)]
enum Claim {
    Incl { value: Vec<u8> },
    Excl { leaf: ExLeaf },
}

#[derive(Clone, Debug)]
struct Tuple {
    root: H,
    key: Key,
    proof_set: Vec<H>,
    claim: Claim,
    mutation: String,
}

impl Tuple {
    fn kind(&self) -> &'static str {
        match self.claim {
            Claim::Incl { .. } => "inclusion",
            Claim::Excl { .. } => "exclusion",
        }
    }
    fn to_json(&self) -> Value {
        let mut j = json!({
            "root": hx(self.root),
            "key": hx(self.key),
            "proof_set": self.proof_set.iter().map(hx).collect::<Vec<_>>(),
            "claim": self.kind(),
            "mutation": self.mutation,
        });
        match &self.claim {
            Claim::Incl { value } => j["value"] = hx(value).into(),
            Claim::Excl { leaf: ExLeaf::Placeholder } => j["leaf"] = Value::Null,
            Claim::Excl { leaf: ExLeaf::Leaf(k, hv) } => j["leaf"] = json!([hx(k), hx(hv)]),
        }
        j
    }
    fn from_json(v: &Value) -> Option<Tuple> {
        let proof_set = v
            .get("proof_set")?
            .as_array()?
            .iter()
            .filter_map(|e| g::key_from_hex(e.as_str()?))
            .collect();
        let claim = match v.get("claim")?.as_str()? {
            "inclusion" => Claim::Incl { value: unhx(v.get("value")?.as_str()?) },
            _ => Claim::Excl {
                leaf: match v.get("leaf") {
                    Some(Value::Array(a)) => {
                        ExLeaf::Leaf(g::key_from_hex(a.first()?.as_str()?)?, g::key_from_hex(a.get(1)?.as_str()?)?)
                    }
                    _ => ExLeaf::Placeholder,
                },
            },
        };
        Some(Tuple {
            root: g::key_from_hex(v.get("root")?.as_str()?)?,
            key: g::key_from_hex(v.get("key")?.as_str()?)?,
            proof_set,
            claim,
            mutation: v.get("mutation").and_then(|m| m.as_str()).unwrap_or("replayed").to_string(),
        })
    }
}

fn lib_verify(t: &Tuple) -> Result<bool, Panicked> {
    let key = g::mk(&t.key);
    match &t.claim {
        Claim::Incl { value } => {
            let p = InclusionProof { proof_set: t.proof_set.clone() };
            guarded(|| p.verify(&t.root, &key, value))
        }
        Claim::Excl { leaf } => {
            let leaf = match leaf {
                ExLeaf::Placeholder => ExclusionLeaf::Placeholder,
                ExLeaf::Leaf(k, hv) => ExclusionLeaf::Leaf(ExclusionLeafData { leaf_key: *k, leaf_value: *hv }),
            };
            let p = ExclusionProof { proof_set: t.proof_set.clone(), leaf };
            guarded(|| p.verify(&t.root, &key))
        }
    }
}

fn ref_verify(t: &Tuple) -> bool {
    match &t.claim {
        Claim::Incl { value } => smt::verify_inclusion(&t.root, &t.key, value, &t.proof_set),
        Claim::Excl { leaf } => smt::verify_exclusion(&t.root, &t.key, leaf, &t.proof_set),
    }
}

struct Ctx<'a> {
    rep: &'a mut Report,
    /// operations that built the tree under examination
    ops: &'a [Op],
    model: &'a Model,
    real_root: H,
}

impl Ctx<'_> {
    fn replay(&self, t: Option<&Tuple>, query: &Key) -> Value {
        json!({
            "ops": g::ops_json(self.ops),
            "query": hx(query),
            "tuple": t.map(|t| t.to_json()),
        })
    }

    /// Run one tuple through both verifiers. `near` = shared-prefix bucket of the base
    /// query key vs the nearest leaf. Returns the library verdict if it did not panic.
    fn judge(&mut self, t: &Tuple, query: &Key, near: &str) -> Option<bool> {
        self.rep.eval();
        let want = ref_verify(t);
        self.rep.class(format!("{}|near={near}|{}|ref={}", t.kind(), t.mutation, want));
        self.rep.count(if want { "reference_accepts" } else { "reference_rejects" });
        match lib_verify(t) {
            Err(p) => {
                let rj = self.replay(Some(t), query);
                self.rep.violation(
                    format!("C14|verify panic|{}|mutation={}|{}", t.kind(), t.mutation, p.site()),
                    format!("{}Proof::verify panicked ({}) on mutation {} (proof set of {} entries)", cap(t.kind()), p.text, t.mutation, t.proof_set.len()),
                    || rj,
                );
                None
            }
            Ok(got) => {
                if got != want {
                    let rj = self.replay(Some(t), query);
                    self.rep.violation(
                        format!(
                            "C14|verify disagrees with reference|{}|mutation={}|lib={got}|ref={want}",
                            t.kind(),
                            t.mutation
                        ),
                        format!(
                            "{}Proof::verify = {got}, reference recomputation = {want}; mutation {}, key {}, {} proof entries",
                            cap(t.kind()),
                            t.mutation,
                            hx(t.key),
                            t.proof_set.len()
                        ),
                        || rj,
                    );
                }
                // semantic soundness against the real root, independent of the reference verifier
                if got && t.root == self.real_root {
                    let sound = match &t.claim {
                        Claim::Incl { value } => self.model.value(&t.key) == Some(value),
                        Claim::Excl { .. } => !self.model.map.contains_key(&t.key),
                    };
                    if !sound {
                        let rj = self.replay(Some(t), query);
                        self.rep.violation(
                            format!("C14|unsound accept|{}|mutation={}", t.kind(), t.mutation),
                            format!(
                                "{}Proof::verify accepted against the tree's root although the model says otherwise (key {} {}); mutation {}",
                                cap(t.kind()),
                                hx(t.key),
                                if self.model.map.contains_key(&t.key) { "is present" } else { "is absent" },
                                t.mutation
                            ),
                            || rj,
                        );
                    }
                }
                Some(got)
            }
        }
    }
}

fn cap(s: &str) -> &'static str {
    if s == "inclusion" { "Inclusion" } else { "Exclusion" }
}

fn flipped(h: &H, rng: &mut Rng) -> H {
    let mut x = *h;
    g::flip_bit(&mut x, rng.usize_below(256));
    x
}

/// a key different from `k` whose first `depth` path bits equal those of `k`
fn same_path_other_key(k: &Key, depth: usize, rng: &mut Rng) -> Option<Key> {
    if depth >= 256 {
        return None;
    }
    let mut n = *k;
    let i = if rng.bool() { 255 } else { depth + rng.usize_below(256 - depth) };
    g::flip_bit(&mut n, i);
    Some(n)
}

/// structured mutations of a generated proof
fn mutations(rng: &mut Rng, base: &Tuple, model: &Model) -> Vec<Tuple> {
    let mut out: Vec<Tuple> = Vec::new();
    let n = base.proof_set.len();
    let mut with = |name: &str, f: &mut dyn FnMut(&mut Tuple)| {
        let mut t = base.clone();
        t.mutation = name.to_string();
        f(&mut t);
        out.push(t);
    };
    // proof set element changed / dropped
    if n > 0 {
        let mid = rng.usize_below(n);
        for (tag, i) in [("first", 0usize), ("last", n - 1), ("random", mid)] {
            let fl = flipped(&base.proof_set[i], rng);
            with(&format!("elem_changed@{tag}"), &mut |t| t.proof_set[i] = fl);
            with(&format!("elem_dropped@{tag}"), &mut |t| {
                t.proof_set.remove(i);
            });
        }
        if n > 1 {
            with("elems_swapped@leaf_end", &mut |t| t.proof_set.swap(0, 1));
        }
        with("elem_zeroed@first", &mut |t| t.proof_set[0] = smt::ZERO);
    }
    // one extra element
    with("elem_added_zero@root_end", &mut |t| t.proof_set.push(smt::ZERO));
    with("elem_added_zero@leaf_end", &mut |t| t.proof_set.insert(0, smt::ZERO));
    let r: H = rng.arr();
    with("elem_added_random@root_end", &mut |t| t.proof_set.push(r));
    // padded to 256 / 257 entries
    if n < 256 {
        with("padded_to_256@leaf_end", &mut |t| {
            while t.proof_set.len() < 256 {
                t.proof_set.insert(0, smt::ZERO);
            }
        });
        with("padded_to_256@root_end", &mut |t| t.proof_set.resize(256, smt::ZERO));
    }
    with("padded_to_257@root_end", &mut |t| t.proof_set.resize(257, smt::ZERO));
    with("padded_to_257@leaf_end", &mut |t| {
        while t.proof_set.len() < 257 {
            t.proof_set.insert(0, smt::ZERO);
        }
    });
    // root changed
    let fr = flipped(&base.root, rng);
    with("root_changed", &mut |t| t.root = fr);
    // a different key with the same proof
    if let Some(k2) = same_path_other_key(&base.key, n, rng) {
        with("other_key@same_path_bits", &mut |t| t.key = k2);
    }
    if n > 0 {
        let mut k2 = base.key;
        g::flip_bit(&mut k2, rng.usize_below(n));
        with("other_key@path_bit_flipped", &mut |t| t.key = k2);
    }
    let present = model.keys();
    if let Some(k2) = present.iter().find(|k| **k != base.key).copied() {
        with("other_key@present", &mut |t| t.key = k2);
    }
    let k2: Key = rng.arr();
    with("other_key@random", &mut |t| t.key = k2);

    match &base.claim {
        Claim::Incl { value } => {
            let mut v2 = value.clone();
            v2.push(rng.u8());
            with("value_changed@appended_byte", &mut |t| t.claim = Claim::Incl { value: v2.clone() });
            let v3 = if value.is_empty() { vec![0u8] } else { vec![] };
            with("value_changed@empty_vs_nonempty", &mut |t| t.claim = Claim::Incl { value: v3.clone() });
            // value replaced by its own hash (what the leaf node stores)
            let hv = g::value_hash(value).to_vec();
            with("value_changed@hash_of_value", &mut |t| t.claim = Claim::Incl { value: hv.clone() });
            // inclusion proof re-labelled as exclusion: the leaf is the queried key itself
            let own = ExLeaf::Leaf(base.key, g::value_hash(value));
            with("relabelled_as_exclusion@own_leaf", &mut |t| t.claim = Claim::Excl { leaf: own.clone() });
            with("relabelled_as_exclusion@placeholder", &mut |t| t.claim = Claim::Excl { leaf: ExLeaf::Placeholder });
            // ... and presented for a neighbour below the leaf's depth (a true exclusion)
            if let Some(k2) = same_path_other_key(&base.key, n, rng) {
                with("relabelled_as_exclusion@own_leaf_for_neighbour", &mut |t| {
                    t.key = k2;
                    t.claim = Claim::Excl { leaf: own.clone() };
                });
            }
        }
        Claim::Excl { leaf } => {
            // exclusion leaf claiming the queried key
            let hv_r: H = rng.arr();
            with("leaf_claims_query_key@random_value", &mut |t| t.claim = Claim::Excl { leaf: ExLeaf::Leaf(base.key, hv_r) });
            with("leaf_claims_query_key@empty_value", &mut |t| {
                t.claim = Claim::Excl { leaf: ExLeaf::Leaf(base.key, g::value_hash(b"")) }
            });
            // exclusion leaf of an unrelated key
            let uk: Key = rng.arr();
            with("leaf_unrelated@random_key", &mut |t| t.claim = Claim::Excl { leaf: ExLeaf::Leaf(uk, hv_r) });
            if let Some((pk, (_, _))) = model.map.iter().find(|(k, _)| match leaf {
                ExLeaf::Leaf(lk, _) => *k != lk,
                ExLeaf::Placeholder => true,
            }) {
                let l2 = ExLeaf::Leaf(*pk, g::value_hash(model.value(pk).unwrap()));
                with("leaf_unrelated@other_present_key", &mut |t| t.claim = Claim::Excl { leaf: l2.clone() });
            }
            match leaf {
                ExLeaf::Placeholder => {
                    // placeholder → leaf
                    let l2 = match present.first() {
                        Some(pk) => ExLeaf::Leaf(*pk, g::value_hash(model.value(pk).unwrap())),
                        None => ExLeaf::Leaf(uk, hv_r),
                    };
                    with("placeholder_replaced_by_leaf", &mut |t| t.claim = Claim::Excl { leaf: l2.clone() });
                }
                ExLeaf::Leaf(lk, lv) => {
                    with("leaf_replaced_by_placeholder", &mut |t| t.claim = Claim::Excl { leaf: ExLeaf::Placeholder });
                    let lv2 = flipped(lv, rng);
                    with("leaf_value_changed", &mut |t| t.claim = Claim::Excl { leaf: ExLeaf::Leaf(*lk, lv2) });
                    let mut lk2 = *lk;
                    g::flip_bit(&mut lk2, 255);
                    with("leaf_key_changed@last_bit", &mut |t| t.claim = Claim::Excl { leaf: ExLeaf::Leaf(lk2, *lv) });
                    // the exclusion proof presented for the exhibited leaf's own key
                    with("query_is_exclusion_leaf_key", &mut |t| t.key = *lk);
                    // the same side hashes are that leaf's inclusion proof
                    if let Some(v) = model.value(lk) {
                        let v = v.clone();
                        with("relabelled_as_inclusion@exhibited_leaf", &mut |t| {
                            t.key = *lk;
                            t.claim = Claim::Incl { value: v.clone() };
                        });
                    }
                }
            }
            // exclusion proof re-labelled as inclusion of the queried key
            with("relabelled_as_inclusion@empty_value", &mut |t| t.claim = Claim::Incl { value: vec![] });
            let rv = g::gen_value(rng);
            with("relabelled_as_inclusion@random_value", &mut |t| t.claim = Claim::Incl { value: rv.clone() });
        }
    }
    out
}

/// Examine one query key on `tree`. `full`: the whole mutation catalogue, otherwise a
/// random handful.
fn examine(cx: &mut Ctx, tree: &Tree, key: &Key, full: bool, rng: &mut Rng) {
    let model = cx.model;
    let present = model.map.contains_key(key);
    let near = match g::nearest_prefix(model.map.keys(), key) {
        None => "empty_tree",
        Some(p) => g::prefix_bucket(p),
    };
    cx.rep.count("queries");
    cx.rep.count(if present { "queries_present_key" } else { "queries_absent_key" });
    let proof = match g::proof_of(tree, key) {
        Ok(Ok(p)) => p,
        Ok(Err(e)) => {
            let rj = cx.replay(None, key);
            cx.rep.violation(
                "C14|generate_proof|Err on complete storage",
                format!("generate_proof({}) returned Err({e}) on a tree with complete storage", hx(key)),
                || rj,
            );
            return;
        }
        Err(p) => {
            let rj = cx.replay(None, key);
            cx.rep.violation(
                format!("C14|generate_proof|panic|{}", p.site()),
                format!("generate_proof({}) panicked: {}", hx(key), p.text),
                || rj,
            );
            return;
        }
    };
    cx.rep.max("max_proof_set_len", proof.proof_set().len() as u64);
    // (1) kind
    if proof.is_inclusion() != present {
        let rj = cx.replay(None, key);
        cx.rep.violation(
            format!(
                "C14|generate_proof|{} proof for {} key",
                if proof.is_inclusion() { "inclusion" } else { "exclusion" },
                if present { "a present" } else { "an absent" }
            ),
            format!(
                "generate_proof({}) is_inclusion() = {} but the key is {} in the model ({} entries)",
                hx(key),
                proof.is_inclusion(),
                if present { "present" } else { "absent" },
                model.len()
            ),
            || rj,
        );
        return;
    }
    let base = match &proof {
        Proof::Inclusion(p) => Tuple {
            root: cx.real_root,
            key: *key,
            proof_set: p.proof_set.clone(),
            claim: Claim::Incl { value: model.value(key).cloned().unwrap_or_default() },
            mutation: "none".into(),
        },
        Proof::Exclusion(p) => {
            match &p.leaf {
                ExclusionLeaf::Placeholder => cx.rep.count("exclusion_proofs_ending_in_placeholder"),
                ExclusionLeaf::Leaf(_) => cx.rep.count("exclusion_proofs_ending_in_other_leaf"),
            }
            Tuple {
                root: cx.real_root,
                key: *key,
                proof_set: p.proof_set.clone(),
                claim: Claim::Excl { leaf: g::ex_leaf(&p.leaf) },
                mutation: "none".into(),
            }
        }
    };
    // (2) the generated proof verifies
    match cx.judge(&base, key, near) {
        Some(true) => cx.rep.count("generated_proofs_verified"),
        Some(false) => {
            let rj = cx.replay(Some(&base), key);
            cx.rep.violation(
                format!("C14|generate_proof|{} proof does not verify", base.kind()),
                format!(
                    "generate_proof({}) gave an {} proof ({} entries) that {}Proof::verify rejects for the tree's root{}",
                    hx(key),
                    base.kind(),
                    base.proof_set.len(),
                    cap(base.kind()),
                    if present { " and the stored value" } else { "" }
                ),
                || rj,
            );
        }
        None => {}
    }
    // (3) the descent the compact definition prescribes (informational cross-check)
    {
        let (sides, term) = model.descend(key);
        let same = sides == base.proof_set
            && match (&base.claim, &term) {
                (Claim::Incl { .. }, smt::Terminal::Leaf(k, _)) => k == key,
                (Claim::Excl { leaf: ExLeaf::Placeholder }, smt::Terminal::Empty) => true,
                (Claim::Excl { leaf: ExLeaf::Leaf(lk, _) }, smt::Terminal::Leaf(k, _)) => lk == k && k != key,
                _ => false,
            };
        cx.rep.count(if same { "proof_equals_reference_descent" } else { "proof_differs_from_reference_descent_(not_judged)" });
    }
    // (4) mutations
    let mut muts = mutations(rng, &base, model);
    if !full {
        rng.shuffle(&mut muts);
        muts.truncate(3);
        // the statement's own negative: another value must not verify
        if let Claim::Incl { value } = &base.claim {
            let mut v2 = value.clone();
            v2.push(1);
            let mut t = base.clone();
            t.mutation = "value_changed@appended_byte".into();
            t.claim = Claim::Incl { value: v2 };
            muts.push(t);
        }
    }
    for t in &muts {
        cx.judge(t, key, near);
    }
    cx.rep.sample(|| json!({"query": hx(key), "present": present, "near": near, "proof_entries": base.proof_set.len(), "kind": base.kind(), "mutations_tried": muts.len(), "model_entries": model.len()}));
}

struct Case {
    ops: Vec<Op>,
    universe: Vec<Key>,
    /// positions (number of operations applied) at which the tree is examined
    checkpoints: Vec<usize>,
    aux_seed: u64,
}

fn run_case(rep: &mut Report, case: &Case, only_query: Option<Key>) {
    let mut tree = Tree::new(Store::new());
    let mut model = Model::new();
    let n = case.ops.len();
    for p in 0..=n {
        if case.checkpoints.contains(&p) {
            let root = tree.root();
            if root != model.root() {
                rep.count("tree_root_differs_from_reference_(judged_by_C12)");
                return;
            }
            rep.count("trees_examined");
            rep.max("max_tree_size", model.len() as u64);
            rep.count(&format!("tree_size_{}", bucket(model.len() as u64)));
            let mut rng = Rng::derive(case.aux_seed, 0xC14, p as u64);
            let queries = match only_query {
                Some(q) => vec![q],
                None => g::query_keys(&mut rng, &model, &case.universe, 96),
            };
            let mut cx = Ctx { rep, ops: &case.ops[..p], model: &model, real_root: root };
            for q in &queries {
                let full = only_query.is_some() || rng.chance(1, 8);
                examine(&mut cx, &tree, q, full, &mut rng);
            }
        }
        if p == n {
            break;
        }
        let op = &case.ops[p];
        model.apply(op);
        match g::apply_tree(&mut tree, op) {
            Outcome::Ok => {}
            _ => {
                rep.count("tree_operation_failed_(judged_by_C12)");
                return;
            }
        }
    }
}

fn replay(rep: &mut Report, rec: &Value) {
    let ops = g::ops_from_json(&rec["ops"]);
    let query = rec.get("query").and_then(|q| q.as_str()).and_then(g::key_from_hex);
    if let Some(t) = rec.get("tuple").and_then(Tuple::from_json) {
        // direct re-execution of the recorded tuple (the model gives the semantic check)
        let mut model = Model::new();
        for op in &ops {
            model.apply(op);
        }
        let real_root = model.root();
        let q = query.unwrap_or(t.key);
        let near = g::nearest_prefix(model.map.keys(), &q).map(g::prefix_bucket).unwrap_or("empty_tree");
        let mut cx = Ctx { rep, ops: &ops, model: &model, real_root };
        let got = cx.judge(&t, &q, near);
        rep.note(format!("replayed tuple (mutation {}): library verdict {:?}, reference verdict {}", t.mutation, got, ref_verify(&t)));
    }
    if let Some(q) = query {
        let n = ops.len();
        let case = Case { universe: g::keys_of(&ops), ops, checkpoints: vec![n], aux_seed: rec["aux_seed"].as_u64().unwrap_or(0) };
        run_case(rep, &case, Some(q));
        rep.note(format!("replayed the history of {n} operations and examined query {} with the full mutation catalogue", hx(q)));
    }
}

pub fn run(cfg: &Cfg) -> Report {
    let mut rep = if let Some(rec) = &cfg.replay {
        let mut r = Report::new();
        replay(&mut r, rec);
        r
    } else {
        let total = cfg.budget(5_000, 120_000);
        let threads = cfg.threads.max(1) as u64;
        let mut rep = par(cfg.threads, |w| {
            let mut r = Report::new();
            let n = total / threads + u64::from((w as u64) < total % threads);
            for i in 0..n {
                let mut rng = Rng::derive(cfg.seed, 0x0C14_0000 + w as u64, i);
                let universe = g::gen_universe(&mut rng);
                let ops = g::gen_history(&mut rng, &universe);
                let mut checkpoints = vec![ops.len()];
                if ops.len() > 2 && rng.bool() {
                    checkpoints.push(rng.usize_below(ops.len()));
                }
                let case = Case { ops, universe, checkpoints, aux_seed: rng.u64() };
                run_case(&mut r, &case, None);
            }
            r
        });
        rep.gate("trees_examined", rep.counter("trees_examined"), total.min(1000));
        rep.gate("classes", rep.classes.len() as u64, 150);
        for k in [
            "queries_present_key",
            "queries_absent_key",
            "generated_proofs_verified",
            "exclusion_proofs_ending_in_placeholder",
            "exclusion_proofs_ending_in_other_leaf",
            "reference_accepts",
            "reference_rejects",
        ] {
            rep.gate(k, rep.counter(k), 1);
        }
        rep.gate("max_proof_set_len", rep.counter("max_proof_set_len"), 256);
        rep
    };
    rep.rule = "one evaluation = one (root, key, proof set, value | exclusion leaf) tuple given to the library verifier and to the reference verifier: the proofs generated for query keys on trees reached by histories, and their structured mutations (element changed/dropped/swapped/zeroed/added, padded to 256 and 257 entries, root changed, other key with the same proof, value changed, exclusion leaf claiming the queried key / of an unrelated key / value or key changed, placeholder<->leaf, inclusion<->exclusion re-labelling); class = (claimed proof kind, shared-prefix bucket of the query vs the nearest leaf, mutation, reference verdict)".into();
    rep.assume("reference verifier: fold the key's path from H(0x00,key,H(value)) (inclusion) or from the exhibited leaf / the zero placeholder (exclusion; a leaf carrying the queried key is rejected) with node = H(0x01,l,r); at most 256 side hashes; sha2 trusted");
    rep.assume("semantic check (accepted against the real root => true in the model) assumes SHA-256 collision resistance");
    rep.note("proof_set order in the library is leaf->root (sparse/merkle_tree.rs path_set reverses the walk, proof.rs verify reads key bit len-1-i for element i); identical to refmodel::smt::fold_up, no conversion");
    rep.note("both proof structs have public fields, so an inclusion proof can be re-labelled as an exclusion proof (ExclusionProof{proof_set, leaf}) and vice versa; both directions are in the catalogue");
    rep
}
