//! C01 Canonical encoding round-trips and reports its own size.
use crate::{
    Cfg,
    Report,
    Rng,
    gen_tx::{
        self as g,
        FreeOpts,
    },
    guarded,
    hx,
    len_class,
    par,
    refmodel::canon,
};
use fuel_tx::{
    Input,
    Output,
    Receipt,
    Transaction,
    field::{
        Inputs,
        Policies as _,
    },
};
use fuel_types::canonical::{
    Deserialize,
    Serialize,
};
use serde_json::{
    Value,
    json,
};
use std::fmt::Debug;

/// equality with the exempt fields masked (receipt payloads, panic contract id and cached
/// metadata are already ignored by the types' own `PartialEq`; the panic reason is not)
fn receipt_eq(a: &Receipt, b: &Receipt) -> bool {
    match (a, b) {
        (
            Receipt::Panic { id: i1, reason: r1, pc: p1, is: s1, .. },
            Receipt::Panic { id: i2, reason: r2, pc: p2, is: s2, .. },
        ) => i1 == i2 && p1 == p2 && s1 == s2 && r1.instruction() == r2.instruction(),
        _ => a == b,
    }
}

struct Case<'a> {
    ty: &'a str,
    variant: String,
    /// shape that the wire format cannot express (known-finding key), if any
    inexpressible: Option<String>,
    replay: Value,
}

fn roundtrip<T>(rep: &mut Report, c: &Case, v: &T, eq: impl Fn(&T, &T) -> bool)
where
    T: Serialize + Deserialize + Debug,
{
    rep.eval();
    let ty = c.ty;
    let shape = c.inexpressible.clone();
    let sig = |what: &str| match &shape {
        Some(s) => format!("C01|{s}|does not round-trip"),
        None => format!("C01|{ty}|{}|{what}", c.variant),
    };
    let r = guarded(|| {
        let bytes = v.to_bytes();
        let (size, ss, sd) = (v.size(), v.size_static(), v.size_dynamic());
        let mut buf = &bytes[..];
        let dec = T::decode(&mut buf);
        let rem = buf.len();
        (bytes, size, ss, sd, dec, rem)
    });
    let (bytes, size, ss, sd, dec, remaining) = match r {
        Ok(x) => x,
        Err(p) => {
            rep.violation(sig(&format!("panic|{}", p.site())), format!("{ty}: panic {} for {:?}", p.text, trunc(v)), || c.replay.clone());
            return;
        }
    };
    if shape.is_some() {
        rep.count("inexpressible_shapes_tried");
    }
    if bytes.len() % 8 != 0 {
        rep.violation(sig("encoding not word aligned"), format!("{ty}: len {} for {:?}", bytes.len(), trunc(v)), || c.replay.clone());
    }
    if bytes.len() != size {
        rep.violation(sig("size() != encoded length"), format!("{ty}: size() {size} encoded {} for {:?}", bytes.len(), trunc(v)), || c.replay.clone());
    }
    if ss.checked_add(sd) != Some(size) {
        rep.violation(sig("size() != size_static()+size_dynamic()"), format!("{ty}: {size} != {ss}+{sd}"), || c.replay.clone());
    }
    match dec {
        Err(e) => rep.violation(sig("decode of own encoding fails"), format!("{ty}: decode error {e:?}; bytes {}; value {:?}", hx(&bytes[..bytes.len().min(400)]), trunc(v)), || c.replay.clone()),
        Ok(w) => {
            if remaining != 0 {
                rep.violation(sig("decode leaves bytes unconsumed"), format!("{ty}: {remaining} of {} bytes left; value {:?} decoded {:?}", bytes.len(), trunc(v), trunc(&w)), || c.replay.clone());
            } else if !eq(v, &w) {
                rep.violation(sig("decoded value differs"), format!("{ty}: value {:?} decoded {:?}", trunc(v), trunc(&w)), || c.replay.clone());
            }
        }
    }
}

fn trunc<T: Debug>(v: &T) -> String {
    let s = format!("{v:?}");
    if s.len() > 700 { format!("{}…", &s[..700]) } else { s }
}

fn tx_inexpressible(tx: &Transaction) -> Option<String> {
    let ins: &[Input] = match tx {
        Transaction::Script(t) => t.inputs(),
        Transaction::Create(t) => t.inputs(),
        Transaction::Upgrade(t) => t.inputs(),
        Transaction::Upload(t) => t.inputs(),
        Transaction::Blob(t) => t.inputs(),
        Transaction::Mint(_) => &[],
    };
    ins.iter().find_map(g::inexpressible_input)
}

fn tx_class(tx: &Transaction) -> String {
    let (mask, lens): (u32, Vec<usize>) = match tx {
        Transaction::Script(t) => (t.policies().bits(), vec![fuel_tx::field::Script::script(t).len(), fuel_tx::field::ScriptData::script_data(t).len()]),
        Transaction::Create(t) => (t.policies().bits(), vec![fuel_tx::field::StorageSlots::storage_slots(t).len()]),
        Transaction::Upgrade(t) => (t.policies().bits(), vec![]),
        Transaction::Upload(t) => (t.policies().bits(), vec![fuel_tx::field::ProofSet::proof_set(t).len()]),
        Transaction::Blob(t) => (t.policies().bits(), vec![]),
        Transaction::Mint(_) => (0, vec![]),
    };
    format!("Transaction::{}|mask={mask}|{}", g::tx_kind_name(tx), lens.iter().map(|l| (l % 8).to_string()).collect::<Vec<_>>().join(","))
}

fn one_case(rep: &mut Report, rng: &mut Rng, idx: u64, info: &Value) {
    let which = idx % 16;
    let allow_empty = idx % 5 == 0;
    let replay = |ty: &str, extra: Value| json!({"info": info, "index": idx, "type": ty, "value": extra});
    match which {
        0..=5 => {
            let o = FreeOpts { allow_empty_distinguishing: allow_empty, ..Default::default() };
            let mut tx = g::free_tx(rng, (idx / 16) as usize % 6, &o);
            // now and then a long element vector (> 1024 and > 4096 elements)
            if idx % 97 == 16 {
                let n = *rng.pick(&[1023usize, 1024, 1025, 1500, 4097]);
                match &mut tx {
                    Transaction::Script(t) => {
                        use fuel_tx::field::Witnesses;
                        t.witnesses_mut().extend((0..n).map(|i| vec![i as u8; i % 3].into()));
                    }
                    Transaction::Create(t) => {
                        let mut s: Vec<fuel_tx::StorageSlot> = (0..n).map(|_| fuel_tx::StorageSlot::new(fuel_types::Bytes32::new(rng.arr()), fuel_types::Bytes32::new(rng.arr()))).collect();
                        s.sort();
                        s.dedup();
                        *fuel_tx::field::StorageSlots::storage_slots_mut(t).as_mut() = s;
                    }
                    Transaction::Upload(t) => {
                        fuel_tx::field::ProofSet::proof_set_mut(t).extend((0..n).map(|_| g::bytes32(rng)));
                    }
                    Transaction::Upgrade(t) => {
                        use fuel_tx::field::Outputs;
                        t.outputs_mut().extend((0..n).map(|i| g::output(rng, i)));
                    }
                    Transaction::Blob(t) => {
                        use fuel_tx::field::Inputs;
                        t.inputs_mut().extend((0..n).map(|i| g::input(rng, i % 7, 12, false)));
                    }
                    Transaction::Mint(_) => {}
                }
                rep.count("long_vector_transactions");
            }
            let inex = tx_inexpressible(&tx);
            let c = Case { ty: "Transaction", variant: g::tx_kind_name(&tx).into(), inexpressible: inex.clone(), replay: replay("Transaction", json!(guarded(|| hx(tx.to_bytes())).unwrap_or_default())) };
            rep.class(tx_class(&tx));
            roundtrip(rep, &c, &tx, |a, b| a == b);
            // the reference encoder, observation only
            if inex.is_none() {
                if let Ok(b) = guarded(|| tx.to_bytes()) {
                    if b != canon::encode_tx(&tx).0 {
                        rep.count("observation_reference_encoder_differs");
                    } else {
                        rep.count("reference_encoder_agrees");
                    }
                }
            }
            // the concrete type as well
            let c2 = Case { ty: "concrete tx", ..c };
            match &tx {
                Transaction::Script(t) => roundtrip(rep, &c2, t, |a, b| a == b),
                Transaction::Create(t) => roundtrip(rep, &c2, t, |a, b| a == b),
                Transaction::Mint(t) => roundtrip(rep, &c2, t, |a, b| a == b),
                Transaction::Upgrade(t) => roundtrip(rep, &c2, t, |a, b| a == b),
                Transaction::Upload(t) => roundtrip(rep, &c2, t, |a, b| a == b),
                Transaction::Blob(t) => roundtrip(rep, &c2, t, |a, b| a == b),
            }
            if idx < 64 {
                rep.sample(|| json!({"type":"Transaction","kind":g::tx_kind_name(&tx),"hex": guarded(|| hx(tx.to_bytes())).unwrap_or_default()}));
            }
        }
        6..=8 => {
            let v = (idx / 16) as usize % g::INPUT_VARIANTS;
            let i = g::input(rng, v, 1100, allow_empty);
            let inex = g::inexpressible_input(&i);
            let lens = [i.input_data_len().unwrap_or(0), i.predicate_len().unwrap_or(0), i.predicate_data_len().unwrap_or(0)];
            rep.class(format!("Input::{}|{}", g::input_variant_name(&i), lens.iter().map(|l| len_class(*l)).collect::<Vec<_>>().join(",")));
            let c = Case { ty: "Input", variant: g::input_variant_name(&i).into(), inexpressible: inex, replay: replay("Input", json!(guarded(|| hx(i.to_bytes())).unwrap_or_default())) };
            roundtrip(rep, &c, &i, |a, b| a == b);
        }
        9 => {
            let o = g::output(rng, (idx / 16) as usize);
            rep.class(format!("Output::{}", g::output_variant_name(&o)));
            let c = Case { ty: "Output", variant: g::output_variant_name(&o).into(), inexpressible: None, replay: replay("Output", json!(format!("{o:?}"))) };
            roundtrip(rep, &c, &o, |a: &Output, b| a == b);
        }
        10 | 11 => {
            let r = g::receipt(rng, (idx / 16) as usize, 700);
            rep.class(format!("Receipt::{}|{}", g::receipt_variant_name(&r), len_class(r.data().map(|d| d.len()).unwrap_or(0))));
            let c = Case { ty: "Receipt", variant: g::receipt_variant_name(&r).into(), inexpressible: None, replay: replay("Receipt", json!(format!("{r:?}"))) };
            roundtrip(rep, &c, &r, receipt_eq);
        }
        12 => {
            let mask = (idx / 16) as u32 % 64;
            let p = g::policies(rng, mask);
            rep.class(format!("Policies|mask={mask}"));
            let c = Case { ty: "Policies", variant: format!("mask={mask}"), inexpressible: None, replay: replay("Policies", json!(format!("{p:?}"))) };
            roundtrip(rep, &c, &p, |a, b| a == b);
        }
        13 => {
            let w = g::witness(rng, 2000);
            rep.class(format!("Witness|{}", len_class(w.as_vec().len())));
            let c = Case { ty: "Witness", variant: String::new(), inexpressible: None, replay: replay("Witness", json!(hx(w.as_vec()))) };
            roundtrip(rep, &c, &w, |a, b| a == b);
        }
        14 => {
            let s = g::storage_slot(rng);
            let u = g::utxo_id(rng);
            let t = g::tx_pointer(rng);
            rep.class("StorageSlot");
            rep.class("UtxoId");
            rep.class("TxPointer");
            roundtrip(rep, &Case { ty: "StorageSlot", variant: String::new(), inexpressible: None, replay: replay("StorageSlot", json!(format!("{s:?}"))) }, &s, |a, b| a == b);
            roundtrip(rep, &Case { ty: "UtxoId", variant: String::new(), inexpressible: None, replay: replay("UtxoId", json!(format!("{u:?}"))) }, &u, |a, b| a == b);
            roundtrip(rep, &Case { ty: "TxPointer", variant: String::new(), inexpressible: None, replay: replay("TxPointer", json!(format!("{t:?}"))) }, &t, |a, b| a == b);
        }
        _ => {
            let v = (idx / 16) as usize % 2;
            let p = g::upgrade_purpose(rng, v);
            rep.class(format!("UpgradePurpose|{v}"));
            roundtrip(rep, &Case { ty: "UpgradePurpose", variant: v.to_string(), inexpressible: None, replay: replay("UpgradePurpose", json!(format!("{p:?}"))) }, &p, |a, b| a == b);
        }
    }
}

pub fn run(cfg: &Cfg) -> Report {
    if let Some(r) = &cfg.replay {
        // replay = regenerate the case from (seed, worker, index)
        let mut rep = Report::new();
        let seed = r["info"]["seed"].as_u64().unwrap_or(0);
        let worker = r["info"]["worker"].as_u64().unwrap_or(0);
        let idx = r["index"].as_u64().unwrap_or(0);
        let mut rng = Rng::derive(seed, 1 + worker, idx);
        one_case(&mut rep, &mut rng, idx, &r["info"]);
        rep.note(format!("replayed case seed={seed} worker={worker} index={idx}"));
        return rep;
    }
    let total = cfg.budget(64_000, 3_000_000);
    let per = total / cfg.threads as u64;
    let mut rep = par(cfg.threads, |w| {
        let mut rep = Report::new();
        let info = json!({"seed": cfg.seed, "worker": w});
        for k in 0..per {
            let idx = k;
            let mut rng = Rng::derive(cfg.seed, 1 + w as u64, idx);
            one_case(&mut rep, &mut rng, idx, &info);
        }
        rep
    });
    rep.rule = "systematic product: type x variant x byte-vector length classes x 64 policy masks x 0..4 list elements, remaining fields boundary-biased random; class = (type, variant, vector-length classes mod 8, policy mask)".into();
    rep.assume("equality is the types' own PartialEq (ignores cached metadata, receipt payloads, panic contract id) with the panic reason masked");
    rep.note("values whose variant-distinguishing byte vector is empty (predicate / message data) are generated in 1/5 of the cases; the wire format cannot express them (finding F6)");
    let obs = rep.counter("observation_reference_encoder_differs");
    if obs > 0 {
        rep.note(format!("observation: reference encoder differs from to_bytes() on {obs} transactions (judged by C03/C04, not here)"));
    }
    rep.gate("classes", rep.classes.len() as u64, 300);
    rep.gate("reference_encoder_agrees", rep.counter("reference_encoder_agrees"), 1);
    rep
}
