//! C09 Binary Merkle roots equal the RFC 6962 tree hash.
use crate::{
    Cfg,
    Report,
    Rng,
    bucket,
    guarded,
    hx,
    par,
    refmodel::rfc6962 as r,
    vmutil::SharedMap,
};
use fuel_merkle::binary::{
    self,
    in_memory::{
        MerkleTree as MemTree,
        NodesTable,
    },
    root_calculator::MerkleRootCalculator,
};
use serde_json::json;

fn leaf(rng: &mut Rng, style: u64) -> Vec<u8> {
    match style {
        0 => vec![],
        1 => vec![rng.u8()],
        2 => rng.bytes(32),
        // 65 bytes starting with 0x01: looks like an inner-node preimage
        3 => {
            let mut v = rng.bytes(65);
            v[0] = 1;
            v
        }
        4 => rng.bytes(64),
        _ => {
            let n = rng.len(300);
            rng.bytes(n)
        }
    }
}

struct Impls {
    calc: MerkleRootCalculator,
    mem: MemTree,
    stor: binary::MerkleTree<NodesTable, SharedMap<NodesTable>>,
    hashes: Vec<[u8; 32]>,
    datas: Vec<Vec<u8>>,
}

fn check_all(rep: &mut Report, im: &Impls, memo: &r::Memo, n: usize, tag: &str, seed_info: &serde_json::Value) {
    let want = memo.root(n);
    let got: Vec<(&str, Result<[u8; 32], crate::Panicked>)> = vec![
        ("MerkleRootCalculator", guarded(|| im.calc.clone().root())),
        ("in_memory::MerkleTree", guarded(|| im.mem.root())),
        ("binary::MerkleTree(storage)", guarded(|| im.stor.root())),
        (
            "new_from_existing_leaves",
            guarded(|| {
                MerkleRootCalculator::new_from_existing_leaves(im.hashes.iter().copied()).root()
            }),
        ),
    ];
    for (name, g) in got {
        rep.eval();
        rep.class(format!("{name}|pop={}|n={}", (n as u64).count_ones().min(6), bucket(n as u64)));
        match g {
            Ok(h) if h == want => {}
            Ok(h) => rep.violation(
                format!("C09|{name}|root!=MTH|{tag}"),
                format!("{name}: root {} != RFC6962 MTH {} for n={n}", hx(h), hx(want)),
                || json!({"kind": "dense", "info": seed_info, "n": n, "impl": name}),
            ),
            Err(p) => rep.violation(
                format!("C09|{name}|panic|{}", p.site()),
                format!("{name}: panic {} for n={n}", p.text),
                || json!({"kind": "dense", "info": seed_info, "n": n, "impl": name}),
            ),
        }
    }
}

fn dense(cfg: &Cfg, worker: usize, max_n: usize) -> Report {
    let mut rep = Report::new();
    let mut rng = Rng::derive(cfg.seed, 9, worker as u64);
    let style = worker as u64 % 6;
    let info = json!({"seed": cfg.seed, "worker": worker, "style": style, "max_n": max_n});
    let mut im = Impls {
        calc: MerkleRootCalculator::new(),
        mem: MemTree::new(),
        stor: binary::MerkleTree::new(SharedMap::new()),
        hashes: vec![],
        datas: vec![],
    };
    let mut memo = r::Memo::new();
    check_all(&mut rep, &im, &memo, 0, "dense", &info);
    for n in 1..=max_n {
        let st = if style == 5 { rng.below(6) } else { style };
        let d = leaf(&mut rng, st);
        im.calc.push(&d);
        im.mem.push(&d);
        if let Err(e) = im.stor.push(&d) {
            rep.violation("C09|binary::MerkleTree(storage)|push error", format!("{e:?}"), || info.clone());
        }
        im.hashes.push(r::leaf_hash(&d));
        memo.push(&d);
        im.datas.push(d);
        check_all(&mut rep, &im, &memo, n, "dense", &info);
        // the helper in fuel-vm and root_from_iterator, sampled
        if n < 64 || n % 97 == 0 {
            rep.eval();
            let want = memo.root(n);
            let e = guarded(|| fuel_vm::crypto::ephemeral_merkle_root(im.datas.iter()));
            let it = guarded(|| MerkleRootCalculator::new().root_from_iterator(im.datas.iter()));
            for (name, g) in [("ephemeral_merkle_root", e.map(|b| *b)), ("root_from_iterator", it)] {
                rep.class(format!("{name}|n={}", bucket(n as u64)));
                match g {
                    Ok(h) if h == want => {}
                    Ok(h) => rep.violation(
                        format!("C09|{name}|root!=MTH"),
                        format!("{name}: {} != {} n={n}", hx(h), hx(want)),
                        || json!({"kind":"dense","info":info,"n":n,"impl":name}),
                    ),
                    Err(p) => rep.violation(format!("C09|{name}|panic|{}", p.site()), p.text.clone(), || info.clone()),
                }
            }
        }
    }
    if worker == 0 {
        rep.sample(|| json!({"kind":"dense","leaf_style":style,"n_max":max_n,
            "first_leaves": im.datas.iter().take(3).map(hx).collect::<Vec<_>>(),
            "root_at_max": hx(memo.root(max_n))}));
    }
    rep
}

/// big sparse counts with short leaves
fn sparse(cfg: &Cfg, worker: usize, counts: &[usize]) -> Report {
    let mut rep = Report::new();
    for (i, &n) in counts.iter().enumerate() {
        if i % cfg.threads != worker {
            continue;
        }
        let mut rng = Rng::derive(cfg.seed, 0x909, n as u64);
        let datas: Vec<[u8; 2]> = (0..n).map(|_| [rng.u8(), rng.u8()]).collect();
        let hashes: Vec<[u8; 32]> = datas.iter().map(|d| r::leaf_hash(d)).collect();
        let want = r::mth_hashed_fast(&hashes);
        let info = json!({"kind":"sparse","seed":cfg.seed,"n":n});
        let mut calc = MerkleRootCalculator::new();
        let mut mem = MemTree::new();
        for d in &datas {
            calc.push(d);
            mem.push(d);
        }
        let rs = [
            ("MerkleRootCalculator", guarded(|| calc.clone().root())),
            ("in_memory::MerkleTree", guarded(|| mem.root())),
            ("new_from_existing_leaves", guarded(|| MerkleRootCalculator::new_from_existing_leaves(hashes.iter().copied()).root())),
            ("ephemeral_merkle_root", guarded(|| *fuel_vm::crypto::ephemeral_merkle_root(datas.iter()))),
        ];
        for (name, g) in rs {
            rep.eval();
            rep.class(format!("{name}|pop={}|n={}", (n as u64).count_ones().min(6), bucket(n as u64)));
            match g {
                Ok(h) if h == want => {}
                Ok(h) => rep.violation(format!("C09|{name}|root!=MTH|sparse"), format!("{name}: {} != {} n={n}", hx(h), hx(want)), || info.clone()),
                Err(p) => rep.violation(format!("C09|{name}|panic|{}", p.site()), p.text.clone(), || info.clone()),
            }
        }
        rep.sample(|| json!({"kind":"sparse","n":n,"root":hx(want)}));
    }
    rep
}

pub fn run(cfg: &Cfg) -> Report {
    let max_n = cfg.budget(1024, 4096) as usize;
    let mut counts = vec![];
    let kmax = if cfg.thorough { 20 } else { 15 };
    for k in 11..=kmax {
        for d in [-1i64, 0, 1] {
            counts.push(((1i64 << k) + d) as usize);
        }
    }
    let mut rng = Rng::derive(cfg.seed, 0x99, 0);
    for _ in 0..(if cfg.thorough { 20 } else { 4 }) {
        counts.push(rng.range(5000, if cfg.thorough { 600_000 } else { 40_000 }) as usize);
    }
    let mut rep = par(cfg.threads, |w| {
        let mut r = dense(cfg, w, if w < 6 { max_n } else { max_n / 4 });
        r.merge(sparse(cfg, w, &counts));
        r
    });
    rep.rule = "dense: every prefix 0..=n_max of 16 leaf streams (6 leaf styles incl. empty, 1-byte, 32-byte, node-like 65-byte) through 4 root implementations + sampled ephemeral_merkle_root/root_from_iterator; sparse: 2^k-1,2^k,2^k+1 and random big counts. class = (implementation, popcount(n) bucket, n bucket)".into();
    rep.assume("reference: RFC 6962 MTH by the recursive definition (memoised on aligned perfect subtrees), sha2 crate trusted");
    rep.note("receipts roots of executed scripts are checked against the same reference in C28");
    rep.gate("classes", rep.classes.len() as u64, 40);
    rep
}
