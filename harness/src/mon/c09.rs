//! C09 Binary Merkle roots equal the RFC 6962 tree hash.
use crate::{
    Cfg,
    Report,
    Rng,
    bucket,
    guarded,
    hx,
    par,
    refmodel::rfc6962 as r,
    vmutil::SharedMap,
};
use fuel_merkle::binary::{
    self,
    in_memory::{
        MerkleTree as MemTree,
        NodesTable,
    },
    root_calculator::MerkleRootCalculator,
};
use serde_json::json;

fn leaf(rng: &mut Rng, style: u64) -> Vec<u8> {
    match style {
        0 => vec![],
        1 => vec![rng.u8()],
        2 => rng.bytes(32),
        // 65 bytes starting with 0x01: looks like an inner-node preimage
        3 => {
            let mut v = rng.bytes(65);
            v[0] = 1;
            v
        }
        4 => rng.bytes(64),
        _ => {
            let n = rng.len(300);
            rng.bytes(n)
        }
    }
}

struct Impls {
    calc: MerkleRootCalculator,
    mem: MemTree,
    stor: binary::MerkleTree<NodesTable, SharedMap<NodesTable>>,
    hashes: Vec<[u8; 32]>,
    datas: Vec<Vec<u8>>,
}

fn check_all(rep: &mut Report, im: &Impls, memo: &r::Memo, n: usize, tag: &str, seed_info: &serde_json::Value) {
    let want = memo.root(n);
    let got: Vec<(&str, Result<[u8; 32], crate::Panicked>)> = vec![
        ("MerkleRootCalculator", guarded(|| im.calc.clone().root())),
        ("in_memory::MerkleTree", guarded(|| im.mem.root())),
        ("binary::MerkleTree(storage)", guarded(|| im.stor.root())),
        (
            "new_from_existing_leaves",
            guarded(|| {
                MerkleRootCalculator::new_from_existing_leaves(im.hashes.iter().copied()).root()
            }),
        ),
    ];
    for (name, g) in got {
        rep.eval();
        rep.class(format!("{name}|pop={}|n={}", (n as u64).count_ones().min(6), bucket(n as u64)));
        match g {
            Ok(h) if h == want => {}
            Ok(h) => rep.violation(
                format!("C09|{name}|root!=MTH|{tag}"),
                format!("{name}: root {} != RFC6962 MTH {} for n={n}", hx(h), hx(want)),
                || json!({"kind": "dense", "info": seed_info, "n": n, "impl": name}),
            ),
            Err(p) => rep.violation(
                format!("C09|{name}|panic|{}", p.site()),
                format!("{name}: panic {} for n={n}", p.text),
                || json!({"kind": "dense", "info": seed_info, "n": n, "impl": name}),
            ),
        }
    }
}

fn dense(cfg: &Cfg, worker: usize, max_n: usize) -> Report {
    let mut rep = Report::new();
    let mut rng = Rng::derive(cfg.seed, 9, worker as u64);
    let style = worker as u64 % 6;
    let info = json!({"seed": cfg.seed, "worker": worker, "style": style, "max_n": max_n});
    let mut im = Impls {
        calc: MerkleRootCalculator::new(),
        mem: MemTree::new(),
        stor: binary::MerkleTree::new(SharedMap::new()),
        hashes: vec![],
        datas: vec![],
    };
    let mut memo = r::Memo::new();
    check_all(&mut rep, &im, &memo, 0, "dense", &info);
    for n in 1..=max_n {
        let st = if style == 5 { rng.below(6) } else { style };
        let d = leaf(&mut rng, st);
        im.calc.push(&d);
        im.mem.push(&d);
        if let Err(e) = im.stor.push(&d) {
            rep.violation("C09|binary::MerkleTree(storage)|push error", format!("{e:?}"), || info.clone());
        }
        im.hashes.push(r::leaf_hash(&d));
        memo.push(&d);
        im.datas.push(d);
        check_all(&mut rep, &im, &memo, n, "dense", &info);
        // the helper in fuel-vm and root_from_iterator, sampled
        if n < 64 || n % 97 == 0 {
            rep.eval();
            let want = memo.root(n);
            let e = guarded(|| fuel_vm::crypto::ephemeral_merkle_root(im.datas.iter()));
            let it = guarded(|| MerkleRootCalculator::new().root_from_iterator(im.datas.iter()));
            for (name, g) in [("ephemeral_merkle_root", e.map(|b| *b)), ("root_from_iterator", it)] {
                rep.class(format!("{name}|n={}", bucket(n as u64)));
                match g {
                    Ok(h) if h == want => {}
                    Ok(h) => rep.violation(
                        format!("C09|{name}|root!=MTH"),
                        format!("{name}: {} != {} n={n}", hx(h), hx(want)),
                        || json!({"kind":"dense","info":info,"n":n,"impl":name}),
                    ),
                    Err(p) => rep.violation(format!("C09|{name}|panic|{}", p.site()), p.text.clone(), || info.clone()),
                }
            }
        }
    }
    if worker == 0 {
        rep.sample(|| json!({"kind":"dense","leaf_style":style,"n_max":max_n,
            "first_leaves": im.datas.iter().take(3).map(hx).collect::<Vec<_>>(),
            "root_at_max": hx(memo.root(max_n))}));
    }
    rep
}

/// big sparse counts with short leaves
fn sparse(cfg: &Cfg, worker: usize, counts: &[usize]) -> Report {
    let mut rep = Report::new();
    for (i, &n) in counts.iter().enumerate() {
        if i % cfg.threads != worker {
            continue;
        }
        let mut rng = Rng::derive(cfg.seed, 0x909, n as u64);
        let datas: Vec<[u8; 2]> = (0..n).map(|_| [rng.u8(), rng.u8()]).collect();
        let hashes: Vec<[u8; 32]> = datas.iter().map(|d| r::leaf_hash(d)).collect();
        let want = r::mth_hashed_fast(&hashes);
        let info = json!({"kind":"sparse","seed":cfg.seed,"n":n});
        let mut calc = MerkleRootCalculator::new();
        let mut mem = MemTree::new();
        for d in &datas {
            calc.push(d);
            mem.push(d);
        }
        let rs = [
            ("MerkleRootCalculator", guarded(|| calc.clone().root())),
            ("in_memory::MerkleTree", guarded(|| mem.root())),
            ("new_from_existing_leaves", guarded(|| MerkleRootCalculator::new_from_existing_leaves(hashes.iter().copied()).root())),
            ("ephemeral_merkle_root", guarded(|| *fuel_vm::crypto::ephemeral_merkle_root(datas.iter()))),
        ];
        for (name, g) in rs {
            rep.eval();
            rep.class(format!("{name}|pop={}|n={}", (n as u64).count_ones().min(6), bucket(n as u64)));
            match g {
                Ok(h) if h == want => {}
                Ok(h) => rep.violation(format!("C09|{name}|root!=MTH|sparse"), format!("{name}: {} != {} n={n}", hx(h), hx(want)), || info.clone()),
                Err(p) => rep.violation(format!("C09|{name}|panic|{}", p.site()), p.text.clone(), || info.clone()),
            }
        }
        rep.sample(|| json!({"kind":"sparse","n":n,"root":hx(want)}));
    }
    rep
}

/// Receipts roots: scripts with a counted LOG loop (`n` iterations) executed by the VM;
/// the `receipts_root` committed in the output transaction must be the RFC 6962 root over
/// the canonical encodings of exactly the receipts the execution produced - also when the
/// loop runs into the receipt limit and further receipts are refused.
fn receipts_roots(cfg: &Cfg, w: usize) -> Report {
    use crate::world::{
        ScriptSpec,
        World,
        run_plain,
    };
    use fuel_asm::{
        RegId,
        op,
    };
    use fuel_types::canonical::Serialize;
    let mut rep = Report::new();
    let limit = 65_535u64;
    let mut counts: Vec<u64> = vec![0, 1, 2, 3, 4, 5, 7, 8, 9, 100, 1023, 1024, 1025, limit - 5, limit - 4, limit - 3, limit - 2, limit - 1, limit, limit + 1, limit + 5];
    let mut rng = Rng::derive(cfg.seed, 0x9c, w as u64);
    for _ in 0..cfg.budget(4, 40) {
        counts.push(rng.below(70_000));
    }
    for (k, n) in counts.iter().enumerate() {
        if k % cfg.threads.max(1) != w {
            continue;
        }
        let world = World::new(fuel_tx::ConsensusParameters::standard(), 0);
        let logd = k % 3 == 2;
        let mut code: Vec<fuel_asm::Instruction> = vec![op::movi(0x10, (*n as u32) & 0x3ffff), op::movi(0x11, 24)];
        if *n > 0 {
            code.push(if logd { op::logd(0x10, RegId::ZERO, RegId::ZERO, 0x11) } else { op::log(0x10, RegId::ZERO, RegId::ZERO, RegId::ZERO) });
            code.push(op::subi(0x10, 0x10, 1));
            code.push(op::jnzb(0x10, RegId::ZERO, 1));
        }
        code.push(op::ret(RegId::ONE));
        let script: Vec<u8> = code.into_iter().collect();
        let spec = ScriptSpec { script, data: vec![], gas_limit: 50_000_000, max_fee: 0, coins: vec![(0, 0, 1000)], ..Default::default() };
        let ready = match spec.ready(&world, k as u64) {
            Ok(r) => r,
            Err(e) => {
                rep.count("receipts_script_rejected");
                rep.note(format!("receipts-root script rejected: {}", &e[..e.len().min(120)]));
                continue;
            }
        };
        let (out, _vm) = run_plain(&world, ready);
        rep.eval();
        let leaves: Vec<Vec<u8>> = out.receipts.iter().map(|x| x.to_bytes()).collect();
        let want = r::mth(&leaves);
        let got = *fuel_tx::field::ReceiptsRoot::receipts_root(&out.tx);
        let at_limit = leaves.len() as u64 >= limit - 1;
        rep.class(format!("receipts_root|{}|receipts={}", if logd { "LOGD" } else { "LOG" }, if at_limit { "at-limit" } else { bucket(leaves.len() as u64) }));
        rep.count("receipts_roots_checked");
        if at_limit {
            rep.count("receipts_roots_checked_at_the_limit");
        }
        if got.as_slice() != &want[..] {
            let info = json!({"kind": "receipts", "loop_count": n, "logd": logd, "receipts": leaves.len()});
            rep.violation(
                format!("C09|receipts_root|root!=MTH of the receipts produced|{}", if at_limit { "at the receipt limit" } else { "below the limit" }),
                format!("script looping {n} times over {}: {} receipts, committed root {} != {}", if logd { "LOGD" } else { "LOG" }, leaves.len(), hx(*got), hx(want)),
                || info.clone(),
            );
        }
    }
    rep
}

/// The receipts context edited through its lock guard (what the VM's state rollback does):
/// after pushes, in-place replacements, swaps, pop+push under one lock, truncation and
/// growth the root must be the RFC 6962 root of the receipts it holds.
fn receipts_ctx_edits(cfg: &Cfg, w: usize) -> Report {
    use fuel_types::canonical::Serialize;
    use fuel_vm::interpreter::ReceiptsCtx;
    let mut rep = Report::new();
    let n_cases = cfg.budget(64, 4000) as usize;
    for case in 0..n_cases {
        if case % cfg.threads.max(1) != w {
            continue;
        }
        let mut rng = Rng::derive(cfg.seed, 0x9d, case as u64);
        let mk = |rng: &mut Rng| fuel_tx::Receipt::log(fuel_types::ContractId::new(rng.arr()), rng.u64(), rng.u64(), rng.u64(), rng.u64(), rng.u64(), rng.u64());
        let mut ctx = ReceiptsCtx::default();
        let n = rng.below(40) as usize;
        for _ in 0..n {
            let r = mk(&mut rng);
            let _ = ctx.push(r);
        }
        let mut ops = vec![];
        for _ in 0..1 + rng.below(4) {
            let op = rng.below(6);
            {
                let mut g = ctx.lock();
                let v = g.receipts_mut();
                match op {
                    0 if !v.is_empty() => {
                        let i = rng.usize_below(v.len());
                        v[i] = mk(&mut rng);
                        ops.push("replace");
                    }
                    1 if v.len() >= 2 => {
                        let (i, j) = (rng.usize_below(v.len()), rng.usize_below(v.len()));
                        v.swap(i, j);
                        ops.push("swap");
                    }
                    2 if !v.is_empty() => {
                        v.pop();
                        v.push(mk(&mut rng));
                        ops.push("pop+push");
                    }
                    3 => {
                        let k = rng.usize_below(v.len() + 1);
                        v.truncate(k);
                        ops.push("truncate");
                    }
                    4 => {
                        for _ in 0..1 + rng.below(5) {
                            v.push(mk(&mut rng));
                        }
                        ops.push("extend");
                    }
                    _ => ops.push("none"),
                }
            }
            rep.eval();
            let leaves: Vec<Vec<u8>> = ctx.as_ref().iter().map(|x| x.to_bytes()).collect();
            let want = r::mth(&leaves);
            let got = ctx.root();
            rep.class(format!("receipts_ctx|{}|n={}", ops.last().unwrap_or(&"none"), bucket(leaves.len() as u64)));
            rep.count("receipts_ctx_roots_checked");
            if got.as_slice() != &want[..] {
                let info = json!({"kind": "receipts_ctx", "case": case, "ops": ops});
                rep.violation(
                    format!("C09|ReceiptsCtx|root!=MTH after an edit through the lock guard|{}", ops.last().unwrap_or(&"none")),
                    format!("{} receipts after {:?}: root {} != {}", leaves.len(), ops, hx(*got), hx(want)),
                    || info.clone(),
                );
                break;
            }
        }
    }
    rep
}

pub fn run(cfg: &Cfg) -> Report {
    let max_n = cfg.budget(1024, 4096) as usize;
    let mut counts = vec![];
    let kmax = if cfg.thorough { 20 } else { 15 };
    for k in 11..=kmax {
        for d in [-1i64, 0, 1] {
            counts.push(((1i64 << k) + d) as usize);
        }
    }
    let mut rng = Rng::derive(cfg.seed, 0x99, 0);
    for _ in 0..(if cfg.thorough { 20 } else { 4 }) {
        counts.push(rng.range(5000, if cfg.thorough { 600_000 } else { 40_000 }) as usize);
    }
    let mut rep = par(cfg.threads, |w| {
        let mut r = dense(cfg, w, if w < 6 { max_n } else { max_n / 4 });
        r.merge(sparse(cfg, w, &counts));
        r.merge(receipts_roots(cfg, w));
        r.merge(receipts_ctx_edits(cfg, w));
        r
    });
    rep.rule = "dense: every prefix 0..=n_max of 16 leaf streams (6 leaf styles incl. empty, 1-byte, 32-byte, node-like 65-byte) through 4 root implementations + sampled ephemeral_merkle_root/root_from_iterator; sparse: 2^k-1,2^k,2^k+1 and random big counts. class = (implementation, popcount(n) bucket, n bucket)".into();
    rep.assume("reference: RFC 6962 MTH by the recursive definition (memoised on aligned perfect subtrees), sha2 crate trusted");
    rep.note("receipts: scripts with a counted LOG/LOGD loop (0..70000 iterations, dense around the 65535 receipt limit) executed by the VM: receipts_root of the output transaction == MTH over Receipt::to_bytes of the receipts produced (receipts roots of generated programs are judged in C28 with an independent receipt encoding)");
    rep.gate("receipts_roots_checked_at_the_limit", rep.counter("receipts_roots_checked_at_the_limit"), 4);
    rep.gate("classes", rep.classes.len() as u64, 40);
    rep
}
