//! C31 Execution is deterministic and independent of VM instance reuse.
use super::grp_e::{
    outcomes_equal,
    replay_record,
    state_class,
};
use crate::{
    Cfg,
    Report,
    Rng,
    guarded,
    par,
    prog::{
        self,
        Env,
        Mode,
        Weights,
    },
    recstore::RecStorage,
    scenario::{
        self,
        Scenario,
        ScenarioOpts,
    },
    world::{
        Outcome,
        ScriptSpec,
        Vm,
        new_vm,
        outcome_of,
        run_plain,
    },
};
use fuel_tx::{
    Finalizable,
    Script,
};
use fuel_vm::{
    checked_transaction::{
        CheckPredicateParams,
        CheckPredicates,
        EstimatePredicates,
        IntoChecked,
        Ready,
    },
    interpreter::{
        MemoryInstance,
        NotSupportedEcal,
    },
    state::{
        Breakpoint,
        ProgramState,
    },
};
use serde_json::json;

fn transact(sc: &Scenario, vm: &mut Vm, ready: Ready<Script>) -> Outcome {
    // the storage is replaced by an identical clone of the world's storage before T
    *vm.as_mut() = RecStorage::new(sc.world.storage.clone());
    let state = match guarded(|| vm.transact(ready).map(|s| *s.state())) {
        Ok(Ok(s)) => Ok(s),
        Ok(Err(e)) => Err(format!("{e:?}")),
        Err(p) => Err(format!("HOST PANIC: {}", p.text)),
    };
    outcome_of(&sc.world, vm, state)
}

fn full_equal(a: &Outcome, b: &Outcome) -> Option<String> {
    if let Some(d) = outcomes_equal(a, b) {
        return Some(d);
    }
    if a.registers != b.registers {
        let i = a.registers.iter().zip(b.registers.iter()).position(|(x, y)| x != y).unwrap_or(0);
        return Some(format!("final register {i} differs"));
    }
    None
}

/// history scenario options: leave residue of a given kind
fn residue_opts(kind: u64) -> (ScenarioOpts, &'static str) {
    let mut w = Weights::default();
    let mut o = ScenarioOpts::default();
    let name = match kind {
        0 => {
            w.heap = 40;
            "big-heap"
        }
        1 => {
            w.stack = 40;
            w.mem = 20;
            "deep-stack"
        }
        2 => {
            w.call = 30;
            w.hostile = 150;
            "frames-then-panic"
        }
        3 => {
            w.storage = 40;
            w.call = 20;
            "warm-slot-cache"
        }
        4 => {
            w.log = 40;
            w.flow = 20;
            "many-receipts"
        }
        5 => "debugger-left-suspended",
        6 => "failed-transact",
        _ => "plain",
    };
    o.weights = w.clone();
    o.contract_weights = w;
    o.tight_gas = 30;
    (o, name)
}

fn run_history(rng: &mut Rng, vm: &mut Vm, idx: u64, residues: &mut Vec<&'static str>) {
    let n = 1 + rng.below(4);
    for k in 0..n {
        let kind = rng.below(8);
        let (o, name) = residue_opts(kind);
        let h = scenario::build(rng, &o);
        let Ok(ready) = h.spec.ready(&h.world, idx * 16 + k) else { continue };
        *vm.as_mut() = RecStorage::new(h.world.storage.clone());
        match name {
            "debugger-left-suspended" => {
                // stop at a breakpoint / after a few single steps and abandon the run
                if rng.bool() {
                    vm.set_single_stepping(true);
                } else {
                    vm.set_breakpoint(Breakpoint::script(rng.below(12)));
                }
                let mut st = guarded(|| vm.transact(ready).map(|s| *s.state()));
                let steps = rng.below(6);
                for _ in 0..steps {
                    if matches!(st, Ok(Ok(ProgramState::RunProgram(_)))) {
                        st = guarded(|| vm.resume());
                    }
                }
                // the next user of the instance configures its own debugging: none
                vm.set_single_stepping(false);
                vm.clear_breakpoints();
            }
            "failed-transact" => {
                // a ready transaction prepared for another gas price is refused
                let bad = h.spec.checked(&h.world, idx * 16 + k).ok().and_then(|c| c.into_ready(h.world.gas_price + 1, h.world.gas_costs(), h.world.params.fee_params(), None).ok());
                if let Some(bad) = bad {
                    let _ = guarded(|| vm.transact(bad).map(|s| *s.state()));
                }
                let _ = guarded(|| vm.transact(ready).map(|s| *s.state()));
            }
            _ => {
                let _ = guarded(|| vm.transact(ready).map(|s| *s.state()));
            }
        }
        residues.push(name);
    }
}

/// History made of transactions over the SAME world as the target (same contracts, same
/// storage keys, same assets) but with other inputs and scripts: state that the
/// interpreter keys by identity (input-contract set, contract-input -> output index map,
/// storage slot cache, owner pointer, panic context, balances) can only leak into the
/// target when both name the same things. The storage is put back to the world's before
/// the target runs (a client that rolled the history back / dry runs), so a fresh
/// interpreter is the reference for the target.
fn run_related_history(rng: &mut Rng, sc: &Scenario, vm: &mut Vm, idx: u64, residues: &mut Vec<&'static str>) {
    let deployed: Vec<fuel_types::ContractId> = sc.world.contracts.iter().map(|d| d.id).collect();
    let n = 1 + rng.below(3);
    for k in 0..n {
        let mut spec = sc.spec.clone();
        let mut tags: Vec<&'static str> = vec![];
        // contract inputs: usually every deployed contract (a superset of the target's)
        let mut listed = if rng.below(4) < 3 { deployed.clone() } else { spec.contracts.clone() };
        if rng.bool() {
            listed.reverse();
        }
        if listed.iter().any(|c| !sc.spec.contracts.contains(c)) {
            tags.push("related:more-contract-inputs");
        }
        spec.contracts = listed.clone();
        // input layout: fewer / other coins so that contract inputs sit where the target
        // has coins, and the owner differs
        match rng.below(4) {
            0 => {
                spec.coins.truncate(1);
                spec.messages.clear();
                tags.push("related:shifted-input-layout");
            }
            1 => {
                for c in spec.coins.iter_mut() {
                    c.0 = 0;
                }
                spec.messages.clear();
                tags.push("related:single-owner");
            }
            _ => {}
        }
        let present: Vec<usize> = {
            let mut v: Vec<usize> = spec.coins.iter().map(|c| c.1 % sc.world.assets.len()).collect();
            v.sort();
            v.dedup();
            v
        };
        spec.change.retain(|a| present.contains(a));
        let n_inputs = (spec.coins.len() + spec.messages.len() + listed.len()) as u16;
        let first_var = (listed.len() + spec.change.len() + spec.coin_outputs.len()) as u16;
        let env = Env {
            contracts: listed,
            foreign_contracts: sc.env.foreign_contracts.clone(),
            assets: sc.world.assets.clone(),
            blobs: sc.env.blobs.clone(),
            variable_outputs: (0..spec.variable_outputs as u16).map(|i| first_var + i).collect(),
            n_inputs,
            n_outputs: first_var + spec.variable_outputs as u16,
            n_witnesses: 2,
        };
        let mut w = Weights::default();
        match rng.below(3) {
            0 => {
                w.storage = 45;
                w.call = 25;
                w.storage_rich = 300;
                tags.push("related:storage-writes");
            }
            1 => {
                w.call = 40;
                w.money = 25;
                w.hostile = 120;
                tags.push("related:calls-and-transfers");
            }
            _ => {
                w.storage = 25;
                w.call = 25;
                w.introspect = 25;
            }
        }
        let ns = 4 + rng.below(14) as usize;
        spec.script = prog::generate(rng, &env, Mode::Script, w, ns).bytes;
        spec.gas_limit = if rng.below(5) == 0 { 500 + rng.below(5000) } else { 50_000 + rng.below(200_000) };
        let Ok(ready) = spec.ready(&sc.world, idx * 16 + k + 0x4000_0000) else { continue };
        *vm.as_mut() = RecStorage::new(sc.world.storage.clone());
        let st = guarded(|| vm.transact(ready).map(|s| *s.state()));
        match st {
            Ok(Ok(ProgramState::Revert(_))) => tags.push("related:reverted"),
            Ok(Ok(_)) => {
                let panicked = vm.receipts().iter().any(|r| matches!(r, fuel_tx::Receipt::Panic { .. }));
                tags.push(if panicked { "related:panicked" } else { "related:succeeded" });
            }
            _ => tags.push("related:refused"),
        }
        residues.extend(tags);
    }
}

/// "Probe" script: makes leftover interpreter state visible. It logs freshly allocated
/// heap bytes (two-step allocation of `a` then `b` bytes: the second step re-allocates the
/// heap buffer when the retained one is shorter), logs `n` freshly extended stack bytes,
/// then fills both regions with 0xff (the residue the next user must not see), and twice
/// calls a small reader contract that reads and rewrites one storage slot and logs the gas
/// it has left (a warm slot cache changes the gas).
fn probe_code(a: u32, b: u32, n: u32, revert: bool) -> Vec<u8> {
    use fuel_asm::{
        GTFArgs,
        RegId,
        op,
    };
    let fill = |code: &mut Vec<fuel_asm::Instruction>, ptr: u8, words: u32| {
        // r15 cursor, r16 counter, r17 = 0xff..ff
        code.push(op::move_(0x15, ptr));
        code.push(op::movi(0x16, words.max(1)));
        code.push(op::not(0x17, RegId::ZERO));
        code.push(op::sw(0x15, 0x17, 0));
        code.push(op::addi(0x15, 0x15, 8));
        code.push(op::subi(0x16, 0x16, 1));
        code.push(op::jnzb(0x16, RegId::ZERO, 2));
    };
    let mut code = vec![
        op::gtf_args(0x14, RegId::ZERO, GTFArgs::ScriptData),
        op::movi(0x10, a),
        op::aloc(0x10),
        op::movi(0x10, b),
        op::aloc(0x10),
        op::movi(0x12, a + b),
        op::logd(RegId::ZERO, RegId::ZERO, RegId::HP, 0x12),
    ];
    fill(&mut code, RegId::HP.to_u8(), (a + b) / 8);
    code.extend([op::cfei(n), op::movi(0x12, n), op::sub(0x11, RegId::SP, 0x12), op::logd(RegId::ZERO, RegId::ZERO, 0x11, 0x12)]);
    // heap -> stack copy (the heap holds 0xff by now): the stack word must receive it
    code.extend([op::movi(0x18, 8), op::mcp(0x11, RegId::HP, 0x18), op::lw(0x19, 0x11, 0), op::log(0x19, RegId::ZERO, RegId::ZERO, RegId::ZERO)]);
    fill(&mut code, 0x11, n / 8);
    code.push(op::cfsi(n));
    for _ in 0..2 {
        code.push(op::movi(0x13, 20_000));
        code.push(op::call(0x14, RegId::ZERO, 0x14, 0x13));
        code.push(op::log(RegId::GGAS, RegId::CGAS, RegId::RET, RegId::RETL));
    }
    // a revert half of the time: everything above is rolled back by a client
    code.push(if revert { op::rvrt(RegId::ONE) } else { op::ret(RegId::ONE) });
    code.into_iter().collect()
}

/// Turns the scenario's transaction into a probe (reader contract installed in its world).
/// Returns the probe's parameters.
fn make_probe(rng: &mut Rng, sc: &mut Scenario) -> (u32, u32, u32) {
    use fuel_asm::{
        RegId,
        op,
    };
    // the slot key is the 32 bytes at address 32 (the base asset id): the same for every
    // transaction of the chain (address 0 holds the transaction id)
    let reader: Vec<u8> = vec![
        op::movi(0x13, 32),
        op::srw(0x10, 0x11, 0x13, 0),
        op::log(0x10, 0x11, RegId::GGAS, RegId::CGAS),
        op::addi(0x10, 0x10, 1),
        op::sww(0x13, 0x11, 0x10),
        op::srw(0x12, 0x11, 0x13, 0),
        op::log(0x12, 0x11, RegId::GGAS, RegId::CGAS),
        op::ret(RegId::ONE),
    ]
    .into_iter()
    .collect();
    let rid = sc.world.install_contract(reader, fuel_types::Salt::new(rng.arr()), vec![]);
    let a = 8 * (1 + rng.below(25)) as u32;
    let b = 8 * (12 + rng.below(750)) as u32;
    let n = 8 * (1 + rng.below(500)) as u32;
    let mut data = rid.as_ref().to_vec();
    data.extend_from_slice(&[0u8; 16]);
    sc.spec.script = probe_code(a, b, n, rng.bool());
    sc.spec.data = data;
    sc.spec.gas_limit = 2_000_000;
    if !sc.spec.contracts.contains(&rid) {
        sc.spec.contracts.push(rid);
    }
    sc.spec.variable_outputs = 0;
    (a, b, n)
}

/// History for a probe target: the probe itself (or a related transaction) left in one of
/// the ways a long-lived interpreter is left: completed, abandoned at a debugger stop in
/// the middle, or ended by a storage error at the k-th access.
fn run_probe_history(rng: &mut Rng, sc: &Scenario, vm: &mut Vm, idx: u64, residues: &mut Vec<&'static str>, abn: (u32, u32, u32)) {
    let n = 1 + rng.below(3);
    for k in 0..n {
        let mut spec = sc.spec.clone();
        // other sizes than the target's: the heap buffer the history leaves behind is
        // usually longer than the target's first allocation and shorter than both
        let total = 16 + 8 * rng.below((abn.0 + abn.1) as u64 / 8 + 12) as u32;
        let a2 = 8 * (1 + rng.below((total / 8).max(2) as u64 - 1)) as u32;
        let n2 = 8 * (1 + rng.below(700)) as u32;
        spec.script = probe_code(a2.min(total - 8), total - a2.min(total - 8), n2, rng.bool());
        let Ok(ready) = spec.ready(&sc.world, idx * 16 + k + 0x5000_0000) else { continue };
        *vm.as_mut() = RecStorage::new(sc.world.storage.clone());
        match rng.below(5) {
            4 => {
                // a transaction that allocated more than half of the memory: the heap buffer
                // it leaves behind reaches down into the address range of the next stack
                use fuel_asm::{
                    RegId,
                    op,
                };
                let mut big = sc.spec.clone();
                big.script = vec![op::movi(0x10, 33 + rng.below(20) as u32), op::slli(0x10, 0x10, 20), op::aloc(0x10), op::ret(RegId::ONE)].into_iter().collect();
                big.gas_limit = 1_000_000;
                if let Ok(r) = big.ready(&sc.world, idx * 16 + k + 0x6000_0000) {
                    let _ = guarded(|| vm.transact(r).map(|s| *s.state()));
                    residues.push("probe:after-a-33-MiB-allocation");
                }
            }
            0 => {
                let _ = guarded(|| vm.transact(ready).map(|s| *s.state()));
                residues.push("probe:completed");
            }
            1 => {
                vm.set_single_stepping(true);
                let mut st = guarded(|| vm.transact(ready).map(|s| *s.state()));
                // anywhere in the probe (the fill loops make up most of its steps), often in
                // or after the reader calls at its end
                let len = 4 * (total as u64 + n2 as u64) / 8 + 40;
                let steps = if rng.bool() { len.saturating_sub(rng.below(40)) } else { rng.below(len) };
                for _ in 0..steps {
                    if matches!(st, Ok(Ok(ProgramState::RunProgram(_)))) {
                        st = guarded(|| vm.resume());
                    }
                }
                vm.set_single_stepping(false);
                vm.clear_breakpoints();
                residues.push("probe:abandoned-at-a-debugger-stop");
            }
            2 => {
                {
                    let st: &RecStorage = (*vm).as_ref();
                    st.fail_at.set(Some(st.counter.get() + 1 + rng.below(14)));
                }
                let _ = guarded(|| vm.transact(ready).map(|s| *s.state()));
                residues.push("probe:ended-by-a-storage-error");
            }
            _ => {
                let mut r2 = vec![];
                run_related_history(rng, sc, vm, idx, &mut r2);
                residues.push("probe:after-related-transactions");
            }
        }
    }
}

fn vm_case(cfg: &Cfg, worker: u64, idx: u64, rep: &mut Report) {
    let mut rng = Rng::derive(cfg.seed ^ (0x31 << 32), worker, idx);
    let mut w = Weights::default();
    w.storage = 12;
    w.call = 10;
    let o = ScenarioOpts { weights: w.clone(), contract_weights: w, ..Default::default() };
    let mut sc = scenario::build(&mut rng, &o);
    let probe = idx % 4 == 3;
    let abn = if probe { make_probe(&mut rng, &mut sc) } else { (0, 0, 0) };
    let replay = replay_record(cfg.seed, 0x31, worker, idx, &sc);
    let Ok(ready) = sc.spec.ready(&sc.world, idx) else {
        rep.count("generated_tx_rejected_by_checks");
        return;
    };
    let (fresh, _) = run_plain(&sc.world, ready.clone());
    // determinism: a second fresh instance
    let (fresh2, _) = run_plain(&sc.world, ready.clone());
    rep.eval();
    if let Some(d) = full_equal(&fresh, &fresh2) {
        rep.violation("C31|two fresh instances disagree", d, || replay.clone());
    }
    // reuse
    let mut vm = new_vm(&sc.world);
    let mut residues = vec![];
    if probe {
        run_probe_history(&mut rng, &sc, &mut vm, idx, &mut residues, abn);
        rep.count("reuse_cases_with_probe_target");
    } else if idx % 2 == 1 {
        run_related_history(&mut rng, &sc, &mut vm, idx, &mut residues);
        rep.count("reuse_cases_with_related_history");
    } else {
        run_history(&mut rng, &mut vm, idx, &mut residues);
    }
    residues.sort();
    residues.dedup();
    let reused = transact(&sc, &mut vm, ready.clone());
    rep.eval();
    let end = match &fresh.state {
        Ok(s) => state_class(s, &fresh),
        Err(_) => "error".into(),
    };
    rep.class(format!("reuse|{}|end={}", residues.join("+"), end.split(':').next().unwrap_or("")));
    for r in &residues {
        rep.count(&format!("residue_{r}"));
    }
    if let Some(d) = full_equal(&fresh, &reused) {
        rep.violation(format!("C31|reused instance differs from fresh instance|{}", d.split(' ').take(3).collect::<Vec<_>>().join(" ")), format!("{d}; history residues {residues:?}"), || replay.clone());
    }
    // the same transaction once more on the same instance
    let again = transact(&sc, &mut vm, ready);
    rep.eval();
    if let Some(d) = full_equal(&fresh, &again) {
        rep.violation(format!("C31|second execution on the same instance differs|{}", d.split(' ').take(3).collect::<Vec<_>>().join(" ")), d, || replay.clone());
    }
    rep.count("reuse_cases");
    if idx == 0 && worker == 0 {
        rep.sample(|| json!({"case": replay, "history_residues": residues, "end": end}));
    }
}

/// predicates: fresh memory vs dirty reused memory
fn predicate_case(cfg: &Cfg, worker: u64, idx: u64, rep: &mut Report) {
    let mut rng = Rng::derive(cfg.seed ^ (0x31b << 32), worker, idx);
    let sc = scenario::build(&mut rng, &ScenarioOpts::default());
    let env = Env { assets: sc.world.assets.clone(), blobs: sc.env.blobs.clone(), n_inputs: 4, n_outputs: 4, n_witnesses: 1, ..Default::default() };
    let mut spec = ScriptSpec { script: vec![], data: vec![], gas_limit: 0, max_fee: 0, coins: vec![(0, 0, 1000)], ..Default::default() };
    for _ in 0..1 + rng.below(3) {
        let mut w = Weights::default();
        w.mem = 20;
        w.heap = 12;
        w.stack = 10;
        let n = 2 + rng.below(8) as usize;
        let p = prog::generate(&mut rng, &env, Mode::Predicate, w, n);
        spec.predicates.push((p.bytes, rng.bytes_len_class(40), 0, 10 + rng.below(100), 0));
    }
    let tx = spec.builder(&sc.world, idx).finalize();
    let params = CheckPredicateParams::from(&sc.world.params);
    let storage = RecStorage::new(sc.world.storage.clone());
    // a dirty memory: taken from an interpreter that ran the scenario's script
    let dirty = || -> MemoryInstance {
        match sc.spec.ready(&sc.world, idx) {
            Ok(r) => {
                let (_, vm) = run_plain(&sc.world, r);
                vm.memory().clone()
            }
            Err(_) => {
                let mut m = MemoryInstance::new();
                let _ = m.grow_stack(5000);
                if let Ok(s) = m.write_noownerchecks(0u64, 5000u64) {
                    s.fill(0xAB);
                }
                m
            }
        }
    };
    let run = |mem: MemoryInstance| {
        let mut t = tx.clone();
        let e = guarded(|| t.estimate_predicates(&params, mem.clone(), &storage).map_err(|e| format!("{e:?}")));
        let c = guarded(|| {
            t.clone()
                .into_checked_basic(sc.world.height, &sc.world.params)
                .map_err(|e| format!("{e:?}"))
                .and_then(|c| c.check_predicates(&params, mem.clone(), &storage, NotSupportedEcal).map(|c| format!("{:?}", c.transaction())).map_err(|e| format!("{e:?}")))
        });
        (e.map_err(|p| p.text), c.map_err(|p| p.text), format!("{t:?}"))
    };
    let a = run(MemoryInstance::new());
    let b = run(dirty());
    rep.eval();
    rep.count("predicate_reuse_cases");
    rep.class(format!("predicates|estimate={}|verify={}", matches!(a.0, Ok(Ok(()))), matches!(a.1, Ok(Ok(_)))));
    if a != b {
        let what = if a.0 != b.0 { "estimation result" } else if a.2 != b.2 { "estimated transaction" } else { "verification result" };
        rep.violation(
            format!("C31|predicates|fresh memory vs reused dirty memory differ|{what}"),
            format!("fresh: {:?} / {:?}; dirty: {:?} / {:?}", a.0, a.1.as_ref().map(|_| "..").map_err(|e| e.clone()), b.0, b.1.as_ref().map(|_| "..").map_err(|e| e.clone())),
            || json!({"kind": "predicates", "seed": cfg.seed, "worker": worker, "index": idx}),
        );
    }
}

pub fn run(cfg: &Cfg) -> Report {
    if let Some(r) = &cfg.replay {
        let c = r.get("case").unwrap_or(r);
        let mut c2 = cfg.clone();
        c2.seed = c["seed"].as_u64().unwrap_or(cfg.seed);
        let (w, i) = (c["worker"].as_u64().unwrap_or(0), c["index"].as_u64().unwrap_or(0));
        let mut rep = Report::new();
        if c["kind"].as_str() == Some("predicates") {
            predicate_case(&c2, w, i, &mut rep);
        } else {
            vm_case(&c2, w, i, &mut rep);
        }
        return rep;
    }
    let n = cfg.budget(2500, 30_000) / cfg.threads as u64;
    let np = cfg.budget(800, 40_000) / cfg.threads as u64;
    let mut rep = par(cfg.threads, |w| {
        let mut r = Report::new();
        for i in 0..n {
            vm_case(cfg, w as u64, i, &mut r);
        }
        for i in 0..np {
            predicate_case(cfg, w as u64, i, &mut r);
        }
        r
    });
    rep.rule = "target transaction T (generated script + contracts) executed on a fresh interpreter vs on an interpreter+memory that first ran a history of 1..4 other generated transactions leaving residue (big heap, deep stack, frames then panic, warm storage-slot cache, many receipts, debugger left suspended, refused transaction), or - every second case - a history of 1..3 transactions over T's own world (same contracts, storage keys and assets; more contract inputs, shifted input layout, other owners; storage-, call- or introspection-heavy scripts that succeed, revert or panic); every fourth case T is a hand-written probe (logs freshly allocated heap after a two-step allocation, freshly extended stack, the gas left around two reads/writes of one storage slot in a reader contract) after histories in which the probe was completed, abandoned at a debugger stop, or ended by an injected storage error; storage replaced by an identical clone of the world's before T; T twice on the same instance; predicates estimated/verified with fresh vs dirty memory. Compared: program state, receipts, output tx, storage fingerprint, all 64 final registers. class = (residue kinds in the history, end state of T)".into();
    rep.assume("all scenarios share the default consensus parameters, so the interpreter's parameters are those of T");
    rep.gate("reuse_cases", rep.counter("reuse_cases"), 500);
    rep.gate("predicate_reuse_cases", rep.counter("predicate_reuse_cases"), 100);
    rep.gate("classes", rep.classes.len() as u64, 20);
    rep
}
