//! C22 Wide-integer instructions follow the specification.
//!
//! Single-instruction bench with memory operands: 128/256-bit operands are written
//! big-endian into the VM's memory (stack scratch, heap scratch; the transaction image below
//! `$ssp` serves as readable-but-not-owned memory), one WDxx/WQxx instruction word is executed
//! and `(outcome, destination bytes | destination register, $of, $err, $pc delta, other
//! changed registers, memory changed outside the destination)` is written as one JSON line
//! that `tools/oracles/wideint.py` re-computes with Python integers.
use super::insn_bench::{
    self as bench,
    Outcome,
    Vm,
    GAS,
    R_CGAS,
    R_ERR,
    R_FLAG,
    R_GGAS,
    R_HP,
    R_OF,
    R_PC,
    R_SP,
    R_SSP,
    VM_MAX_RAM,
};
use crate::{
    Cfg,
    Report,
    Rng,
    hx,
    par,
    unhx,
};
use fuel_asm::Opcode;
use serde_json::Value;
use std::{
    collections::HashSet,
    io::Write,
};

#[derive(Clone, Copy, PartialEq, Eq, Debug)]
enum Form {
    /// rA = cmp(mem[rB], rC | mem[rC]); imm06
    Cmp,
    /// mem[rA] = op(mem[rB], rC | mem[rC]); imm06
    Op,
    /// mem[rA] = (rB | mem[rB]) * (rC | mem[rC]); imm06
    Mul,
    /// mem[rA] = mem[rB] / (rC | mem[rC]); imm06
    Div,
    /// mem[rA] = mem[rB] * mem[rC] / mem[rD]
    MulDiv,
    /// mem[rA] = (mem[rB] + mem[rC]) % mem[rD]
    AddMod,
    /// mem[rA] = (mem[rB] * mem[rC]) % mem[rD]
    MulMod,
}

struct WDef {
    name: &'static str,
    code: Opcode,
    n: u64,
    form: Form,
}

const fn w(name: &'static str, code: Opcode, n: u64, form: Form) -> WDef {
    WDef { name, code, n, form }
}

const OPS: &[WDef] = &[
    w("WDCM", Opcode::WDCM, 16, Form::Cmp),
    w("WQCM", Opcode::WQCM, 32, Form::Cmp),
    w("WDOP", Opcode::WDOP, 16, Form::Op),
    w("WQOP", Opcode::WQOP, 32, Form::Op),
    w("WDML", Opcode::WDML, 16, Form::Mul),
    w("WQML", Opcode::WQML, 32, Form::Mul),
    w("WDDV", Opcode::WDDV, 16, Form::Div),
    w("WQDV", Opcode::WQDV, 32, Form::Div),
    w("WDMD", Opcode::WDMD, 16, Form::MulDiv),
    w("WQMD", Opcode::WQMD, 32, Form::MulDiv),
    w("WDAM", Opcode::WDAM, 16, Form::AddMod),
    w("WQAM", Opcode::WQAM, 32, Form::AddMod),
    w("WDMM", Opcode::WDMM, 16, Form::MulMod),
    w("WQMM", Opcode::WQMM, 32, Form::MulMod),
];

fn has_imm(f: Form) -> bool {
    matches!(f, Form::Cmp | Form::Op | Form::Mul | Form::Div)
}

const S_LEN: u64 = 512;
const H_LEN: u64 = 512;
/// tracked part of the readable-but-not-owned transaction image below `$ssp`
const L_LEN: u64 = 1024;

/// imm06 layout of the instruction set specification (used for workload shaping and the
/// coverage-class name only; validity is judged by the oracle)
fn imm_class(form: Form, imm: u32) -> (String, bool, bool) {
    // -> (class, lhs indirect, rhs indirect)
    let ind = imm & 0x20 != 0;
    match form {
        Form::Cmp => {
            const M: [&str; 7] = ["EQ", "NE", "LT", "GT", "LTE", "GTE", "LZC"];
            let m = (imm & 7) as usize;
            if imm & 0x18 != 0 || m >= M.len() {
                ("invalid".into(), true, true)
            } else {
                (format!("{}/{}", M[m], if ind { "ind" } else { "dir" }), true, ind)
            }
        }
        Form::Op => {
            const M: [&str; 8] = ["ADD", "SUB", "NOT", "OR", "XOR", "AND", "SHL", "SHR"];
            if imm & 0x18 != 0 {
                ("invalid".into(), true, true)
            } else {
                (format!("{}/{}", M[(imm & 7) as usize], if ind { "ind" } else { "dir" }), true, ind)
            }
        }
        Form::Mul => {
            if imm & 0xf != 0 {
                ("invalid".into(), true, true)
            } else {
                let l = imm & 0x10 != 0;
                (format!("{}-{}", if l { "ind" } else { "dir" }, if ind { "ind" } else { "dir" }), l, ind)
            }
        }
        Form::Div => {
            if imm & 0x1f != 0 {
                ("invalid".into(), true, true)
            } else {
                ((if ind { "ind" } else { "dir" }).into(), true, ind)
            }
        }
        _ => ("-".into(), true, true),
    }
}

// ---------------------------------------------------------------------------------------
// 256-bit helper for workload generation (little-endian limbs); not an oracle

#[derive(Clone, Copy, PartialEq, Eq, Debug, Default)]
struct W([u64; 4]);

impl W {
    fn from_u64(v: u64) -> W {
        W([v, 0, 0, 0])
    }
    fn max(bits: u32) -> W {
        let mut x = W([u64::MAX; 4]);
        x.mask(bits);
        x
    }
    fn mask(&mut self, bits: u32) {
        if bits <= 128 {
            self.0[2] = 0;
            self.0[3] = 0;
        }
    }
    fn pow2(k: u32) -> W {
        let mut x = W::default();
        x.0[(k / 64) as usize % 4] = 1u64 << (k % 64);
        x
    }
    fn add_small(mut self, v: u64, bits: u32) -> W {
        let mut carry = v;
        for l in self.0.iter_mut() {
            let (s, o) = l.overflowing_add(carry);
            *l = s;
            carry = o as u64;
            if carry == 0 {
                break;
            }
        }
        self.mask(bits);
        self
    }
    fn sub_small(mut self, v: u64, bits: u32) -> W {
        let mut borrow = v;
        for l in self.0.iter_mut() {
            let (s, o) = l.overflowing_sub(borrow);
            *l = s;
            borrow = o as u64;
            if borrow == 0 {
                break;
            }
        }
        self.mask(bits);
        self
    }
    fn not(mut self, bits: u32) -> W {
        for l in self.0.iter_mut() {
            *l = !*l;
        }
        self.mask(bits);
        self
    }
    fn random_bits(rng: &mut Rng, nbits: u32) -> W {
        let mut x = W([rng.u64(), rng.u64(), rng.u64(), rng.u64()]);
        for i in 0..4u32 {
            let lo = i * 64;
            if nbits <= lo {
                x.0[i as usize] = 0;
            } else if nbits < lo + 64 {
                x.0[i as usize] &= (1u64 << (nbits - lo)) - 1;
                // make the bit length exact
                x.0[i as usize] |= 1u64 << (nbits - lo - 1);
            }
        }
        x
    }
    fn is_zero(&self) -> bool {
        self.0 == [0; 4]
    }
    fn be_bytes(&self, n: u64) -> Vec<u8> {
        let mut v = Vec::with_capacity(32);
        for l in self.0.iter().rev() {
            v.extend_from_slice(&l.to_be_bytes());
        }
        v[(32 - n as usize)..].to_vec()
    }
    /// 0 zero, 1 one, 2 small (< 2^64), 3 all ones, 4 other
    fn class(&self, bits: u32) -> u8 {
        if self.is_zero() {
            0
        } else if *self == W::from_u64(1) {
            1
        } else if *self == W::max(bits) {
            3
        } else if self.0[1] == 0 && self.0[2] == 0 && self.0[3] == 0 {
            2
        } else {
            4
        }
    }
}

fn class_of_bytes(b: &[u8]) -> u8 {
    let n = b.len();
    if b.iter().all(|&x| x == 0) {
        0
    } else if b[..n - 1].iter().all(|&x| x == 0) && b[n - 1] == 1 {
        1
    } else if b.iter().all(|&x| x == 0xff) {
        3
    } else if b[..n - 8].iter().all(|&x| x == 0) {
        2
    } else {
        4
    }
}

const CLASS_NAMES: [&str; 6] = ["zero", "one", "small", "max", "big", "na"];

fn wide(rng: &mut Rng, bits: u32) -> W {
    const KS: &[u32] = &[1, 7, 8, 31, 32, 63, 64, 65, 96, 127, 128, 129, 191, 192, 193, 254, 255];
    let k = loop {
        let k = if rng.bool() { *rng.pick(KS) } else { rng.range(1, bits as u64 - 1) as u32 };
        if k < bits {
            break k;
        }
    };
    match rng.below(12) {
        0 => W::default(),
        1 => W::from_u64(1),
        2 => W::max(bits),
        3 => W::max(bits).sub_small(1, bits),
        4 => W::pow2(k).sub_small(1, bits),
        5 => W::pow2(k),
        6 => W::pow2(k).add_small(1, bits),
        7 => W::from_u64(rng.word()),
        8 => W::from_u64(rng.small(300)),
        _ => {
            let nb = rng.range(1, bits as u64) as u32;
            W::random_bits(rng, nb)
        }
    }
}

// ---------------------------------------------------------------------------------------

/// One executed case (fully materialised: sufficient for replay).
#[derive(Clone, Debug, Default)]
struct Case {
    op: usize,
    imm: u32,
    flags: u64,
    /// register indices
    ra: usize,
    rb: usize,
    rc: usize,
    rd: usize,
    /// register values (addresses or direct operands; for compares `a` is the previous
    /// content of the destination register)
    a: u64,
    b: u64,
    c: u64,
    d: u64,
    ssp: u64,
    sp: u64,
    of0: u64,
    err0: u64,
    /// memory preparation, applied in order
    writes: Vec<(u64, Vec<u8>)>,
}

fn pack(def: &WDef, c: &Case) -> u32 {
    let op = (def.code as u8 as u32) << 24;
    let (ra, rb, rc, rd) = (c.ra as u32, c.rb as u32, c.rc as u32, c.rd as u32);
    if has_imm(def.form) {
        op | ra << 18 | rb << 12 | rc << 6 | (c.imm & 0x3f)
    } else {
        op | ra << 18 | rb << 12 | rc << 6 | rd
    }
}

struct Worker {
    vm: Vm,
    base: [u64; 64],
    /// start of the stack scratch (= `$ssp` after init)
    ssp0: u64,
    /// start of the heap scratch (= `$hp`)
    hp1: u64,
    /// shadow of [lo0, ssp0 + S_LEN), lo0 = ssp0 - L_LEN (tail of the transaction image)
    sh_lo: Vec<u8>,
    /// shadow of [hp1, VM_MAX_RAM)
    sh_hi: Vec<u8>,
    rep: Report,
    classes: HashSet<(u8, u8, u8, u8)>,
    log: std::io::BufWriter<std::fs::File>,
    line: Vec<u8>,
}

struct Obs {
    pre: [u64; 64],
    post: [u64; 64],
    outcome: Outcome,
    ma: Option<Vec<u8>>,
    mb: Option<Vec<u8>>,
    mc: Option<Vec<u8>>,
    md: Option<Vec<u8>>,
    out: Option<Vec<u8>>,
    memchg: bool,
}

impl Worker {
    fn new(path: &str) -> Self {
        let mut vm = bench::new_vm();
        let ssp0 = vm.registers()[R_SSP];
        assert_eq!(ssp0, vm.registers()[R_SP]);
        vm.registers_mut()[R_SP] = ssp0 + S_LEN;
        vm.memory_mut().grow_stack(ssp0 + S_LEN).expect("grow stack");
        vm.allocate(H_LEN).expect("allocate heap scratch");
        let hp1 = vm.registers()[R_HP];
        assert_eq!(hp1, VM_MAX_RAM - H_LEN);
        let mut base = [0u64; 64];
        base.copy_from_slice(vm.registers());
        assert!(ssp0 > L_LEN);
        let sh_lo = vm.memory().read(ssp0 - L_LEN, L_LEN + S_LEN).expect("read low").to_vec();
        let sh_hi = vm.memory().read(hp1, H_LEN).expect("read heap").to_vec();
        let file = std::fs::File::create(path).expect("create event log");
        Worker {
            vm,
            base,
            ssp0,
            hp1,
            sh_lo,
            sh_hi,
            rep: Report::new(),
            classes: HashSet::new(),
            log: std::io::BufWriter::with_capacity(1 << 20, file),
            line: Vec::with_capacity(1024),
        }
    }

    fn lo0(&self) -> u64 {
        self.ssp0 - L_LEN
    }

    fn lo_len(&self) -> u64 {
        self.ssp0 + S_LEN
    }

    /// shadow bytes of [addr, addr+n) when the range lies inside the tracked memory
    fn peek(&self, addr: u64, n: u64) -> Option<Vec<u8>> {
        let end = addr.checked_add(n)?;
        if addr >= self.lo0() && end <= self.lo_len() {
            let o = (addr - self.lo0()) as usize;
            Some(self.sh_lo[o..o + n as usize].to_vec())
        } else if addr >= self.hp1 && end <= VM_MAX_RAM {
            let o = (addr - self.hp1) as usize;
            Some(self.sh_hi[o..o + n as usize].to_vec())
        } else {
            None
        }
    }

    fn poke(&mut self, addr: u64, data: &[u8]) -> bool {
        let n = data.len() as u64;
        let Some(end) = addr.checked_add(n) else { return false };
        if addr >= self.lo0() && end <= self.lo_len() {
            let o = (addr - self.lo0()) as usize;
            self.sh_lo[o..o + data.len()].copy_from_slice(data);
        } else if addr >= self.hp1 && end <= VM_MAX_RAM {
            let o = (addr - self.hp1) as usize;
            self.sh_hi[o..o + data.len()].copy_from_slice(data);
        } else {
            return false;
        }
        self.vm
            .memory_mut()
            .write_noownerchecks(addr, n)
            .expect("scratch memory is allocated")
            .copy_from_slice(data);
        true
    }

    fn execute(&mut self, def: &WDef, c: &Case) -> Obs {
        for (addr, data) in &c.writes {
            self.poke(*addr, data);
        }
        let mut regs = self.base;
        regs[R_GGAS] = GAS;
        regs[R_CGAS] = GAS;
        regs[R_FLAG] = c.flags;
        regs[R_OF] = c.of0;
        regs[R_ERR] = c.err0;
        regs[R_SSP] = c.ssp;
        regs[R_SP] = c.sp;
        // operand registers win over an aliased destination register
        if c.ra >= 16 {
            regs[c.ra] = c.a;
        }
        if !has_imm(def.form) && c.rd >= 16 {
            regs[c.rd] = c.d;
        }
        if c.rc >= 16 {
            regs[c.rc] = c.c;
        }
        if c.rb >= 16 {
            regs[c.rb] = c.b;
        }
        let n = def.n;
        let is_cmp = def.form == Form::Cmp;
        let ma = if is_cmp { None } else { self.peek(regs[c.ra], n) };
        let mb = self.peek(regs[c.rb], n);
        let mc = self.peek(regs[c.rc], n);
        let md = if has_imm(def.form) { None } else { self.peek(regs[c.rd], n) };
        self.vm.registers_mut().copy_from_slice(&regs);
        let outcome = bench::exec_raw(&mut self.vm, pack(def, c));
        let mut post = [0u64; 64];
        post.copy_from_slice(self.vm.registers());
        // memory after: destination bytes and anything else that changed
        let lo = self.vm.memory().read(self.lo0(), L_LEN + S_LEN).expect("read low").to_vec();
        let hi = self.vm.memory().read(self.hp1, H_LEN).expect("read heap").to_vec();
        let dest = if is_cmp { None } else { Some(regs[c.ra]) };
        let mut memchg = false;
        let in_dest = |addr: u64| match dest {
            Some(a) => addr >= a && addr - a < n,
            None => false,
        };
        if lo != self.sh_lo {
            for (i, (x, y)) in lo.iter().zip(self.sh_lo.iter()).enumerate() {
                if x != y && !in_dest(self.lo0() + i as u64) {
                    memchg = true;
                }
            }
        }
        if hi != self.sh_hi {
            for (i, (x, y)) in hi.iter().zip(self.sh_hi.iter()).enumerate() {
                if x != y && !in_dest(self.hp1 + i as u64) {
                    memchg = true;
                }
            }
        }
        self.sh_lo = lo;
        self.sh_hi = hi;
        let out = dest.and_then(|a| self.peek(a, n));
        Obs {
            pre: regs,
            post,
            outcome,
            ma,
            mb,
            mc,
            md,
            out,
            memchg,
        }
    }

    fn event_line(&mut self, def: &WDef, c: &Case, o: &Obs) {
        let out = &mut self.line;
        out.clear();
        let _ = write!(out, "{{\"op\":\"{}\"", def.name);
        if has_imm(def.form) {
            let _ = write!(out, ",\"imm\":{}", c.imm);
        }
        let _ = write!(
            out,
            ",\"f\":{},\"ra\":{},\"rb\":{},\"rc\":{},\"a\":\"{:x}\",\"b\":\"{:x}\",\"c\":\"{:x}\"",
            c.flags, c.ra, c.rb, c.rc, o.pre[c.ra], o.pre[c.rb], o.pre[c.rc]
        );
        if !has_imm(def.form) {
            let _ = write!(out, ",\"rd\":{},\"d\":\"{:x}\"", c.rd, o.pre[c.rd]);
        }
        let _ = write!(
            out,
            ",\"ssp\":\"{:x}\",\"sp\":\"{:x}\",\"hp\":\"{:x}\",\"of0\":\"{:x}\",\"err0\":\"{:x}\"",
            o.pre[R_SSP], o.pre[R_SP], o.pre[R_HP], c.of0, c.err0
        );
        for (k, m) in [("ma", &o.ma), ("mb", &o.mb), ("mc", &o.mc), ("md", &o.md)] {
            if let Some(m) = m {
                let _ = write!(out, ",\"{k}\":\"{}\"", hx(m));
            }
        }
        let _ = write!(out, ",\"res\":\"{}\"", o.outcome.tag().replace(['"', '\\'], "'"));
        let ok = o.outcome == Outcome::Proceed;
        if ok {
            if def.form == Form::Cmp {
                let _ = write!(out, ",\"dst\":\"{:x}\"", o.post[c.ra]);
            }
            let _ = write!(
                out,
                ",\"of\":\"{:x}\",\"err\":\"{:x}\",\"dpc\":{}",
                o.post[R_OF],
                o.post[R_ERR],
                o.post[R_PC].wrapping_sub(o.pre[R_PC]) as i64
            );
        }
        if let Some(m) = &o.out {
            if ok || Some(m) != o.ma.as_ref() {
                let _ = write!(out, ",\"out\":\"{}\"", hx(m));
            }
        }
        let mut allowed = vec![];
        if ok {
            allowed.extend([R_OF, R_ERR, R_PC]);
            if def.form == Form::Cmp {
                allowed.push(c.ra);
            }
        }
        let chg = bench::changed_regs(&o.pre, &o.post, &allowed);
        if !chg.is_empty() {
            let _ = write!(out, ",\"chg\":{chg:?}");
        }
        if o.memchg {
            let _ = write!(out, ",\"memchg\":true");
        }
        out.extend_from_slice(b"}\n");
    }

    fn run_case(&mut self, c: &Case) {
        let def = &OPS[c.op];
        let o = self.execute(def, c);
        self.event_line(def, c, &o);
        let line = std::mem::take(&mut self.line);
        self.log.write_all(&line).expect("write event log");
        self.rep.eval();
        // coverage class
        let (icls, lind, rind) = imm_class(def.form, c.imm);
        let _ = icls;
        let cl = |ind: bool, m: &Option<Vec<u8>>, direct: u64| -> u8 {
            if ind {
                m.as_ref().map(|b| class_of_bytes(b)).unwrap_or(5)
            } else {
                W::from_u64(direct).class(def.n as u32 * 8)
            }
        };
        let lc = cl(lind, &o.mb, o.pre[c.rb]);
        let rc = cl(rind, &o.mc, o.pre[c.rc]);
        let oc = match &o.outcome {
            Outcome::Proceed => (o.post[R_OF] != 0) as u8 | ((o.post[R_ERR] != 0) as u8) << 1,
            Outcome::Panic(r) => 16 + (*r as u8).min(200),
            _ => 255,
        };
        let immk = if has_imm(def.form) { c.imm as u8 & 63 } else { 0 };
        self.classes.insert((c.op as u8, immk, lc * 6 + rc, oc));
        if self.rep.samples.len() < 2 && self.rep.evaluations % 997 == 1 {
            let s = String::from_utf8_lossy(&line).to_string();
            self.rep.sample(|| serde_json::from_str(s.trim()).unwrap_or(Value::Null));
        }
        let replay = |line: &[u8]| -> Value {
            serde_json::from_str(String::from_utf8_lossy(line).trim()).unwrap_or(Value::Null)
        };
        match &o.outcome {
            Outcome::Proceed | Outcome::Panic(_) => {}
            Outcome::RustPanic(t) => {
                let site = crate::Panicked { text: t.clone() }.site();
                self.rep.violation(
                    format!("C22|{}|rust panic|{site}", def.name),
                    format!("{}: the library panicked: {t}", def.name),
                    || replay(&line),
                );
            }
            other => {
                self.rep.violation(
                    format!("C22|{}|neither Proceed nor a VM panic", def.name),
                    format!("{}: {}", def.name, other.tag()),
                    || replay(&line),
                );
            }
        }
        // reserved compare destination: must panic and leave every non-gas register alone
        if def.form == Form::Cmp && c.ra < 16 {
            self.rep.count("reserved_dst_cases");
            let chg = bench::changed_regs(&o.pre, &o.post, &[]);
            match &o.outcome {
                Outcome::Panic(_) if chg.is_empty() => {}
                Outcome::Panic(r) => self.rep.violation(
                    format!("C22|{}|reserved dst|panic {r:?} but a non-gas register changed", def.name),
                    format!("{} with reserved destination {}: registers {chg:?} changed", def.name, c.ra),
                    || replay(&line),
                ),
                other => self.rep.violation(
                    format!("C22|{}|reserved dst|no panic", def.name),
                    format!("{} with reserved destination {}: {}", def.name, c.ra, other.tag()),
                    || replay(&line),
                ),
            }
        }
        match (&o.outcome, def.form == Form::Cmp) {
            (Outcome::Proceed, false) => self.rep.count("memory_results"),
            (Outcome::Proceed, true) => self.rep.count("compare_results"),
            _ => self.rep.count("panics"),
        }
        self.line = line;
    }

    fn finish(mut self) -> Report {
        self.log.flush().expect("flush event log");
        for (op, imm, oc, out) in &self.classes {
            let def = &OPS[*op as usize];
            let (icls, _, _) = imm_class(def.form, *imm as u32);
            let outn = match out {
                0 => "ok".to_string(),
                1 => "ok+of".into(),
                2 => "ok+err".into(),
                3 => "ok+of+err".into(),
                255 => "abnormal".into(),
                n => format!("panic:{:?}", fuel_asm::PanicReason::from(n - 16)),
            };
            self.rep.class(format!(
                "{}|{}|{}-{}|{}",
                def.name,
                icls,
                CLASS_NAMES[(oc / 6) as usize],
                CLASS_NAMES[(oc % 6) as usize],
                outn
            ));
        }
        self.rep
    }

    // -----------------------------------------------------------------------------------
    // workload

    fn scratch_addr(&self, rng: &mut Rng, n: u64, region: u64) -> u64 {
        let off = |rng: &mut Rng, len: u64| -> u64 {
            match rng.below(4) {
                0 => rng.below(len - n + 1),
                1 => len - n,
                _ => 8 * rng.below((len - n) / 8 + 1),
            }
        };
        match region {
            0 => self.ssp0 + off(rng, S_LEN),
            1 => self.hp1 + off(rng, H_LEN),
            _ => self.lo0() + rng.below(L_LEN - n + 1),
        }
    }

    fn gen_case(&self, rng: &mut Rng, op: usize, imm: u32, flags: u64) -> Case {
        let def = &OPS[op];
        let n = def.n;
        let bits = (n * 8) as u32;
        let form = def.form;
        let (icls, lind, rind) = imm_class(form, imm);
        let _ = icls;
        let mut c = Case {
            op,
            imm,
            flags,
            ssp: self.ssp0,
            sp: self.ssp0 + S_LEN,
            of0: *rng.pick(&[0, 1, u64::MAX, 0x1234_5678_9abc_def0]),
            err0: *rng.pick(&[0, 1, u64::MAX]),
            ..Default::default()
        };
        let mut regs: Vec<usize> = (16..64).collect();
        rng.shuffle(&mut regs);
        (c.ra, c.rb, c.rc, c.rd) = (regs[0], regs[1], regs[2], regs[3]);

        // ----- operand values
        let mut l = wide(rng, bits);
        let mut r = wide(rng, bits);
        let mut t = wide(rng, bits);
        match form {
            Form::Cmp => match rng.below(6) {
                0 => r = l,
                1 => r = l.add_small(1, bits),
                2 => r = l.sub_small(1, bits),
                // differ in exactly one byte position (endianness)
                3 => {
                    r = l;
                    let k = rng.below(bits as u64) as u32;
                    r.0[(k / 64) as usize] ^= 1u64 << (k % 64);
                }
                _ => {}
            },
            Form::Op => match imm & 7 {
                0 => match rng.below(5) {
                    0 => r = l.not(bits),
                    1 => r = l.not(bits).add_small(1, bits),
                    _ => {}
                },
                1 => match rng.below(5) {
                    0 => r = l,
                    1 => r = l.add_small(1, bits),
                    2 => r = l.sub_small(1, bits),
                    _ => {}
                },
                6 | 7 => {
                    r = match rng.below(8) {
                        0 => W::from_u64(0),
                        1 => W::from_u64(bits as u64 - 1),
                        2 => W::from_u64(bits as u64),
                        3 => W::from_u64(bits as u64 + 1),
                        4 => W::from_u64(rng.below(bits as u64 + 8)),
                        5 => W::from_u64(*rng.pick(&[63u64, 64, 65, 127, 128, 129, 1 << 32, (1 << 32) + 3, u64::MAX])),
                        6 => W::pow2(rng.range(64, bits as u64 - 1) as u32).add_small(rng.below(4), bits),
                        _ => r,
                    }
                }
                _ => {}
            },
            Form::Mul => match rng.below(5) {
                0 => {
                    let k = rng.range(1, bits as u64 - 1) as u32;
                    l = W::pow2(k);
                    r = W::pow2(bits - k);
                    if rng.bool() {
                        r = r.sub_small(1, bits);
                    }
                }
                1 => {
                    let k = rng.range(1, bits as u64 - 1) as u32;
                    l = W::random_bits(rng, k);
                    let extra = rng.below(2) as u32;
                    r = W::random_bits(rng, bits - k + extra);
                }
                _ => {}
            },
            Form::Div => match rng.below(8) {
                0 | 1 => r = W::default(),
                2 => r = l,
                3 => r = l.add_small(1, bits),
                4 => r = W::from_u64(rng.small(9)),
                _ => {}
            },
            Form::MulDiv => match rng.below(8) {
                0 | 1 => t = W::default(),
                2 => t = W::from_u64(1),
                3 => t = l,
                4 => t = r,
                5 => t = W::from_u64(rng.small(9)),
                _ => {}
            },
            Form::AddMod | Form::MulMod => match rng.below(8) {
                0 | 1 => t = W::default(),
                2 => t = W::from_u64(1),
                3 => t = W::max(bits),
                4 => t = l,
                5 => {
                    l = W::max(bits);
                    r = W::max(bits);
                }
                _ => {}
            },
        }

        // ----- destination / ownership plan
        // 0 owned stack, 1 owned heap, 2 overlap with an operand, 3 not owned: tx image,
        // 4 not owned: above a lowered $sp, 5 not owned: below a raised $ssp,
        // 6 unallocated gap, 7 beyond the end of memory
        let plan = if form == Form::Cmp {
            0
        } else {
            match rng.below(20) {
                0..=7 => 0,
                8..=10 => 1,
                11..=13 => 2,
                14 => 3,
                15 => 4,
                16 => 5,
                17 => 6,
                18 => 7,
                _ => 0,
            }
        };
        // operands stay out of the stack scratch when its ownership window is narrowed
        let heap_only = plan == 4;
        let region = |rng: &mut Rng| -> u64 {
            if heap_only {
                1
            } else {
                match rng.below(10) {
                    0..=5 => 0,
                    6..=8 => 1,
                    _ => 2,
                }
            }
        };
        let bad_addr = |rng: &mut Rng| -> u64 {
            *rng.pick(&[
                VM_MAX_RAM - n + 1,
                VM_MAX_RAM - 1,
                VM_MAX_RAM,
                VM_MAX_RAM + 1,
                1 << 32,
                1 << 63,
                u64::MAX - n + 1,
                u64::MAX - n + 2,
                u64::MAX,
            ])
        };
        let place = |rng: &mut Rng, val: &W, c: &mut Case| -> u64 {
            if rng.chance(1, 60) {
                return bad_addr(rng);
            }
            let reg = region(rng);
            let addr = self.scratch_addr(rng, n, reg);
            if reg != 2 {
                c.writes.push((addr, val.be_bytes(n)));
            }
            addr
        };
        // lhs
        c.b = if lind { place(rng, &l, &mut c) } else { l.0[0] };
        // rhs
        c.c = if rind {
            if rng.chance(1, 25) && lind {
                c.b // same address
            } else {
                place(rng, &r, &mut c)
            }
        } else {
            r.0[0]
        };
        if !has_imm(form) {
            c.d = match rng.below(30) {
                0 => c.b,
                1 => c.c,
                _ => place(rng, &t, &mut c),
            };
        }
        // same register for two operands
        if rng.chance(1, 40) {
            c.rc = c.rb;
            c.c = c.b;
        }
        if form == Form::Cmp {
            c.a = rng.u64();
            if rng.chance(1, 12) {
                c.ra = rng.usize_below(16);
            } else if rng.chance(1, 12) {
                c.ra = if rng.bool() { c.rb } else { c.rc };
            }
            // the imm06 of compares sits in the rD field: nothing else to place
            return c;
        }
        let in_stack = |a: u64| a >= self.ssp0 && a.checked_add(n).is_some_and(|e| e <= self.ssp0 + S_LEN);
        match plan {
            0 => c.a = self.scratch_addr(rng, n, 0),
            1 => c.a = self.scratch_addr(rng, n, 1),
            2 => {
                // exact or partial overlap with an operand that lives in owned memory
                let mut cands = vec![];
                if lind {
                    cands.push(c.b);
                }
                if rind {
                    cands.push(c.c);
                }
                if !has_imm(form) {
                    cands.push(c.d);
                }
                cands.retain(|&a| in_stack(a) || (a >= self.hp1 && a.checked_add(n).is_some_and(|e| e <= VM_MAX_RAM)));
                if !cands.is_empty() {
                    let t = *rng.pick(&cands);
                    let delta = match rng.below(4) {
                        0 | 1 => 0i64,
                        2 => rng.range(1, n - 1) as i64,
                        _ => -(rng.range(1, n - 1) as i64),
                    };
                    let a = t.wrapping_add(delta as u64);
                    let ok = in_stack(a) || (a >= self.hp1 && a.checked_add(n).is_some_and(|e| e <= VM_MAX_RAM));
                    c.a = if ok { a } else { t };
                } else {
                    c.a = self.scratch_addr(rng, n, 0);
                }
            }
            3 => c.a = self.scratch_addr(rng, n, 2),
            4 => {
                // destination not (fully) below a lowered $sp
                let off = 8 * rng.below((S_LEN - n) / 8 + 1);
                c.a = self.ssp0 + off;
                let cut = match rng.below(3) {
                    0 => off,
                    1 => off + n - 1,
                    _ => off + rng.below(n),
                };
                c.sp = self.ssp0 + cut;
            }
            5 => {
                let off = 8 * rng.below((S_LEN - n) / 8 + 1);
                c.a = self.ssp0 + off;
                let cut = match rng.below(3) {
                    0 => off + 1,
                    1 => off + n,
                    _ => off + 1 + rng.below(n),
                };
                c.ssp = self.ssp0 + cut.min(S_LEN);
            }
            6 => {
                c.a = match rng.below(4) {
                    0 => self.ssp0 + S_LEN,
                    1 => self.ssp0 + S_LEN - rng.range(1, n - 1),
                    2 => self.hp1 - rng.range(1, n),
                    _ => rng.range(self.ssp0 + S_LEN, self.hp1 - n),
                };
            }
            _ => c.a = bad_addr(rng),
        }
        c
    }

    fn random_case(&self, rng: &mut Rng) -> Case {
        let op = rng.usize_below(OPS.len());
        let form = OPS[op].form;
        let imm = if !has_imm(form) {
            0
        } else if rng.chance(1, 10) {
            rng.below(64) as u32
        } else {
            // a valid encoding
            let ind = (rng.below(2) as u32) << 5;
            match form {
                Form::Cmp => rng.below(7) as u32 | ind,
                Form::Op => rng.below(8) as u32 | ind,
                Form::Mul => (rng.below(2) as u32) << 4 | ind,
                _ => ind,
            }
        };
        let flags = rng.below(4);
        self.gen_case(rng, op, imm, flags)
    }
}

fn hexv(v: &Value, k: &str) -> u64 {
    v.get(k)
        .and_then(|x| x.as_str())
        .and_then(|s| u64::from_str_radix(s, 16).ok())
        .unwrap_or(0)
}

fn numv(v: &Value, k: &str) -> u64 {
    v.get(k).and_then(|x| x.as_u64()).unwrap_or(0)
}

fn case_from_json(v: &Value) -> Option<Case> {
    let name = v.get("op")?.as_str()?;
    let op = OPS.iter().position(|d| d.name == name)?;
    let mut c = Case {
        op,
        imm: numv(v, "imm") as u32,
        flags: numv(v, "f"),
        ra: (numv(v, "ra") & 63) as usize,
        rb: (numv(v, "rb") & 63) as usize,
        rc: (numv(v, "rc") & 63) as usize,
        rd: (numv(v, "rd") & 63) as usize,
        a: hexv(v, "a"),
        b: hexv(v, "b"),
        c: hexv(v, "c"),
        d: hexv(v, "d"),
        ssp: hexv(v, "ssp"),
        sp: hexv(v, "sp"),
        of0: hexv(v, "of0"),
        err0: hexv(v, "err0"),
        writes: vec![],
    };
    // all recorded byte strings come from one pre-image, so the order does not matter
    for (ak, mk) in [("a", "ma"), ("d", "md"), ("c", "mc"), ("b", "mb")] {
        if let Some(m) = v.get(mk).and_then(|x| x.as_str()) {
            c.writes.push((hexv(v, ak), unhx(m)));
        }
    }
    Some(c)
}

const RULE: &str = "one instruction per case on a script-context VM with a 512-byte owned stack scratch and a 512-byte heap scratch; operands big-endian in stack / heap / transaction image (aligned and unaligned), boundary-biased 128/256-bit values (0, 1, 2^k-1, 2^k, 2^k+1, max, max-1, random bit length) and op-specific relations (equal, +-1, complement, zero divisor / modulus, product around 2^bits); systematic: every op x all 64 imm06 x flags 0..3; destination owned (stack, heap), overlapping an operand (exact / partial), not owned (transaction image, above a lowered $sp, below a raised $ssp), in the unallocated gap, beyond the end of memory; operand addresses beyond the end of memory. class = (opcode, imm06 class, lhs-rhs operand class, outcome); judged offline by tools/oracles/wideint.py";

pub fn run(cfg: &Cfg) -> Report {
    std::fs::create_dir_all(&cfg.work_dir).ok();
    if let Some(rec) = &cfg.replay {
        return replay(cfg, rec);
    }
    let total = cfg.budget(200_000, 6_000_000);
    let threads = cfg.threads.max(1) as u64;
    let per_imm: u64 = if cfg.thorough { 16 } else { 4 };
    let mut rep = par(cfg.threads, |worker| {
        let path = format!("{}/C22.{}.{}.jsonl", cfg.work_dir, cfg.seed, worker);
        let mut w = Worker::new(&path);
        let mut rng = Rng::derive(cfg.seed, 0x22, worker as u64);
        let mut idx = 0u64;
        let mut n_sys = 0u64;
        for op in 0..OPS.len() {
            let imms: Vec<u32> = if has_imm(OPS[op].form) { (0..64).collect() } else { vec![0] };
            for imm in imms {
                for flags in 0..4 {
                    for _ in 0..per_imm {
                        n_sys += 1;
                        idx += 1;
                        if idx % threads != worker as u64 {
                            continue;
                        }
                        let c = w.gen_case(&mut rng, op, imm, flags);
                        w.run_case(&c);
                        w.rep.count("systematic_cases");
                    }
                }
            }
        }
        let n_rand = total.saturating_sub(n_sys).max(16_000) / threads;
        for _ in 0..n_rand {
            let c = w.random_case(&mut rng);
            w.run_case(&c);
            w.rep.count("random_cases");
        }
        let mut r = w.finish();
        r.event_logs.push(("wideint".into(), path));
        r
    });
    rep.rule = RULE.into();
    rep.assume("the instruction word layout is packed by the monitor as the instruction-set specification gives it; operands are placed with MemoryInstance::write_noownerchecks and the post-state is read with MemoryInstance::read (trusted, property C23)");
    rep.assume("expected results are recomputed by tools/oracles/wideint.py with Python integers; corners whose specification is not certain are counted as unspecified_* and not judged");
    rep.note("gas registers are excluded (C26); registers and memory after a panic are recorded but judged only for reserved compare destinations");
    rep.gate("events", rep.evaluations, 100_000);
    rep.gate("classes", rep.classes.len() as u64, 500);
    rep.gate("memory_results", rep.counter("memory_results"), 20_000);
    rep.gate("compare_results", rep.counter("compare_results"), 5_000);
    rep
}

fn replay(cfg: &Cfg, rec: &Value) -> Report {
    let mut rep = Report::new();
    rep.rule = RULE.into();
    let Some(c) = case_from_json(rec) else {
        rep.inconclusive = Some("replay record is not a C22 event".into());
        return rep;
    };
    let path = format!("{}/C22.{}.replay.jsonl", cfg.work_dir, cfg.seed);
    let mut w = Worker::new(&path);
    w.run_case(&c);
    let line = String::from_utf8_lossy(&w.line).trim().to_string();
    let mut r = w.finish();
    r.note(format!("replayed event: {line}"));
    r.event_logs.push(("wideint".into(), path));
    rep.merge(r);
    rep
}
