//! C19 Transaction checking accepts exactly the specification-valid transactions.
//!
//! Valid-by-construction transactions of all six kinds, damaged by 0, 1 or 2 entries of the
//! violation catalogue (`gen_valid`), under default and tightened consensus parameters, are
//! given to `IntoChecked::into_checked_basic`; the verdict is compared with the reference
//! model `refmodel::validity` (all rules evaluated on the whole transaction), and on
//! acceptance the recorded free balances with the reference map.
use crate::{
    Cfg,
    Report,
    Rng,
    gen_valid::{
        self as g,
        Case,
    },
    guarded,
    hx,
    par,
    refmodel::{
        canon,
        validity::{
            self as v,
            Status,
        },
    },
};
use fuel_tx::{
    ConsensusParameters,
    FormatValidityChecks,
    Transaction,
};
use fuel_types::{
    AssetId,
    BlockHeight,
};
use fuel_vm::checked_transaction::{
    CheckedMetadata,
    IntoChecked,
};
use serde_json::{
    Value,
    json,
};
use std::collections::{
    BTreeMap,
    BTreeSet,
};

/// Rules that no transaction can break alone (another rule is necessarily broken too):
/// a contract input needs a contract output and vice versa, both are forbidden together;
/// a non-base change output needs a non-base input, which is forbidden as well.
const NOT_SOLELY_VIOLABLE: [&str; 3] = ["no_contract_inputs", "no_contract_outputs", "change_outputs_only_base_asset"];

#[derive(Default)]
struct Tally {
    /// per rule: satisfied, violated, violated alone
    rules: BTreeMap<&'static str, [u64; 3]>,
}

fn kind_name(tx: &Transaction) -> &'static str {
    crate::gen_tx::tx_kind_name(tx)
}

/// `Validity(TransactionMaturity)` -> `TransactionMaturity`
fn error_name(dbg: &str) -> String {
    let s = dbg.strip_prefix("Validity(").unwrap_or(dbg);
    s.chars().take_while(|c| c.is_alphanumeric() || *c == '_').collect()
}

fn replay_record(c: &Case, info: &Value) -> Value {
    json!({
        "tx_json": serde_json::to_value(&c.tx).unwrap_or(Value::Null),
        "tx_hex": hx(canon::encode_tx(&c.tx).0),
        "height": u32::from(c.height),
        "params": serde_json::to_value(&c.params).unwrap_or(Value::Null),
        "applied": c.applied,
        "info": info,
    })
}

fn balances_of(m: &CheckedMetadata) -> Option<(BTreeMap<AssetId, u64>, Option<u64>)> {
    Some(match m {
        CheckedMetadata::Script(m) => ((*m.non_retryable_balances).clone(), Some(*m.retryable_balance)),
        CheckedMetadata::Create(m) => ((*m.free_balances).clone(), None),
        CheckedMetadata::Upgrade(m) => ((*m.free_balances).clone(), None),
        CheckedMetadata::Upload(m) => ((*m.free_balances).clone(), None),
        CheckedMetadata::Blob(m) => ((*m.free_balances).clone(), None),
        CheckedMetadata::Mint(_) => return None,
    })
}

fn judge(rep: &mut Report, tally: &mut Tally, c: &Case, info: &Value, want_sample: bool) {
    rep.eval();
    let kind = kind_name(&c.tx);
    let (tx, height, params): (&Transaction, BlockHeight, &ConsensusParameters) = (&c.tx, c.height, &c.params);

    // the reference verdict: every rule on the whole transaction
    let ev = match guarded(|| v::evaluate(tx, height, params)) {
        Ok(e) => e,
        Err(p) => {
            rep.violation(format!("C19|panic|reference model:{}", p.site()), format!("{kind}: panic while evaluating the rules (library helper used by the model): {}", p.text), || replay_record(c, info));
            return;
        }
    };
    let model_valid = ev.valid();
    for r in &ev.satisfied {
        tally.rules.entry(r).or_default()[0] += 1;
    }
    for r in &ev.violated {
        tally.rules.entry(r).or_default()[1] += 1;
    }
    if ev.violated.len() == 1 {
        tally.rules.entry(ev.violated[0]).or_default()[2] += 1;
    }
    let violated = if ev.violated.is_empty() { "none".to_string() } else { ev.violated.join(",") };
    if c.damages == 0 {
        rep.count("undamaged");
        if model_valid {
            rep.count("undamaged_valid_per_model");
        } else {
            rep.note(format!("generator: undamaged {kind} breaks {violated} (applied {:?})", c.applied));
        }
    }
    rep.count(&format!("damages={}", c.damages.min(2)));

    // the implementation
    let res = guarded(|| tx.clone().into_checked_basic(height, params));
    let res = match res {
        Ok(r) => r,
        Err(p) => {
            rep.violation(format!("C19|panic|{}", p.site()), format!("{kind}: into_checked_basic panicked: {}; model={} rules violated per model={violated}", p.text, if model_valid { "valid" } else { "invalid" }), || replay_record(c, info));
            return;
        }
    };
    let impl_ok = res.is_ok();
    rep.class(format!("{kind}|{}|{violated}", if impl_ok { "accepted" } else { "rejected" }));
    rep.count(&format!("{}:{kind}", if impl_ok { "accepted" } else { "rejected" }));
    if let Err(e) = &res {
        rep.count(&format!("impl_error:{}", error_name(&format!("{e:?}"))));
    }
    if impl_ok != model_valid {
        let sig = format!(
            "C19|{kind}|impl={}|model={}|rules violated per model={violated}",
            if impl_ok { "Ok" } else { "Err" },
            if model_valid { "valid" } else { "invalid" }
        );
        let what = match &res {
            Ok(_) => format!("{kind} accepted by into_checked_basic although it breaks: {violated}; generator steps {:?}", c.applied),
            Err(e) => format!("{kind} rejected by into_checked_basic with {e:?} although every rule holds; generator steps {:?}", c.applied),
        };
        rep.violation(sig, what, || replay_record(c, info));
    }
    if want_sample {
        rep.sample(|| json!({"kind": kind, "height": u32::from(height), "applied": c.applied, "impl": if impl_ok { "Ok".to_string() } else { format!("{:?}", res.as_ref().err()) }, "model_violated": ev.violated, "tx_hex": hx(canon::encode_tx(tx).0)}));
    }

    // Mint: the plain `check` as well
    if let Transaction::Mint(_) = tx {
        match guarded(|| tx.check(height, params)) {
            Ok(r) => {
                rep.count("mint_check_calls");
                if r.is_ok() != model_valid {
                    rep.violation(
                        format!("C19|Mint|check()|impl={}|model={}|rules violated per model={violated}", if r.is_ok() { "Ok" } else { "Err" }, if model_valid { "valid" } else { "invalid" }),
                        format!("Mint: FormatValidityChecks::check gives {r:?}, model breaks: {violated}"),
                        || replay_record(c, info),
                    );
                }
            }
            Err(p) => rep.violation(format!("C19|panic|{}", p.site()), format!("Mint: check panicked: {}", p.text), || replay_record(c, info)),
        }
    }

    let Ok(checked) = res else { return };
    if !model_valid {
        return;
    }

    // free balances of an accepted transaction
    if let Some((got, got_retry)) = balances_of(checked.metadata()) {
        match v::free_balances_full(tx, params) {
            None => rep.inconclusive = Some(format!("reference balances undefined for a model-valid {kind}")),
            Some(want) => {
                rep.count(&format!("balances_compared:{kind}"));
                let assets: BTreeSet<AssetId> = got.keys().chain(want.non_retryable.keys()).copied().collect();
                if got.keys().ne(want.non_retryable.keys()) {
                    rep.count("observation_balance_key_sets_differ");
                }
                for a in assets {
                    let (g_, w_) = (got.get(&a).copied().unwrap_or(0), want.non_retryable.get(&a).copied().unwrap_or(0));
                    rep.count("asset_balances_compared");
                    if g_ != w_ {
                        let which = if a == *params.base_asset_id() { "base asset" } else { "other asset" };
                        rep.violation(
                            format!("C19|{kind}|free balance differs|{which}"),
                            format!("{kind}: recorded free balance of {a:x} is {g_}, inputs - coin outputs{} = {w_}", if which == "base asset" { " - fee limit" } else { "" }),
                            || replay_record(c, info),
                        );
                    }
                }
                if let Some(r) = got_retry {
                    rep.count("retryable_compared");
                    if want.retryable > 0 {
                        rep.count("retryable_nonzero_compared");
                    }
                    if r != want.retryable {
                        rep.violation(format!("C19|{kind}|free balance differs|retryable amount"), format!("{kind}: recorded retryable amount {r}, sum of data-message amounts {}", want.retryable), || replay_record(c, info));
                    }
                }
            }
        }
    }

    // the rule the implementation defers to the signature stage: predicate owners.
    // Judged only where no signature is involved.
    if !matches!(tx, Transaction::Mint(_)) {
        match (v::has_signed_inputs(tx), v::predicate_owners_match(tx)) {
            (false, Some(owners_ok)) => {
                let chain_id = params.chain_id();
                match guarded(move || checked.check_signatures(&chain_id)) {
                    Ok(r) => {
                        rep.count(if owners_ok { "signature_stage:owners_match" } else { "signature_stage:owner_mismatch" });
                        if r.is_ok() != owners_ok {
                            rep.violation(
                                format!("C19|{kind}|signature stage|check_signatures={}|predicate owners match={owners_ok}", if r.is_ok() { "Ok" } else { "Err" }),
                                format!("{kind} without signed inputs: check_signatures gives {:?}, all predicate owners equal their predicate root: {owners_ok}", r.map(|_| ())),
                                || replay_record(c, info),
                            );
                        }
                    }
                    Err(p) => rep.violation(format!("C19|panic|{}", p.site()), format!("{kind}: check_signatures panicked: {}", p.text), || replay_record(c, info)),
                }
            }
            (true, _) => rep.count("signature_stage:skipped_signed_inputs"),
            _ => {}
        }
    }
}

fn rule_table() -> String {
    let mut s = String::from("rule table (S = specified, P = pinned_to_implementation): ");
    for r in v::RULES {
        s.push_str(&format!("{}[{}] ", r.name, if r.status == Status::Specified { "S" } else { "P" }));
    }
    s.push_str(&format!("; {}[S, enforced by Checked::check_signatures, judged only for transactions without signed inputs]", v::STAGED_RULE_PREDICATE_OWNER));
    s
}

fn finish(rep: &mut Report, tally: Tally) {
    for (r, [s, vi, sole]) in tally.rules {
        rep.count_n(&format!("rule_satisfied:{r}"), s);
        rep.count_n(&format!("rule_violated:{r}"), vi);
        rep.count_n(&format!("rule_violated_alone:{r}"), sole);
    }
}

fn replay(cfg: &Cfg, r: &Value) -> Report {
    let mut rep = Report::new();
    let tx: Result<Transaction, _> = serde_json::from_value(r["tx_json"].clone());
    let params: Result<ConsensusParameters, _> = serde_json::from_value(r["params"].clone());
    let (Ok(tx), Ok(params)) = (tx, params) else {
        rep.inconclusive = Some("replay record does not deserialize".into());
        return rep;
    };
    let height = BlockHeight::from(r["height"].as_u64().unwrap_or(0) as u32);
    let applied: Vec<String> = r["applied"].as_array().map(|a| a.iter().filter_map(|x| x.as_str().map(String::from)).collect()).unwrap_or_default();
    let c = Case { tx, height, params, applied, damages: 1 };
    let mut t = Tally::default();
    judge(&mut rep, &mut t, &c, &r["info"], true);
    let ev = v::evaluate(&c.tx, c.height, &c.params);
    rep.note(format!("replayed {}: model violated rules {:?}; into_checked_basic -> {:?}", kind_name(&c.tx), ev.violated, guarded(|| c.tx.clone().into_checked_basic(c.height, &c.params).map(|_| "Ok")).map_err(|p| p.text)));
    finish(&mut rep, t);
    let _ = cfg;
    rep
}

pub fn run(cfg: &Cfg) -> Report {
    if let Some(r) = &cfg.replay {
        return replay(cfg, r);
    }
    let total = cfg.budget(200_000, 5_000_000);
    let per = (total / cfg.threads as u64).max(1);
    let mut rep = par(cfg.threads, |w| {
        let mut rep = Report::new();
        let mut tally = Tally::default();
        for idx in 0..per {
            let mut rng = Rng::derive(cfg.seed, 19_000 + w as u64, idx);
            let kind = (idx % 6) as usize;
            let n_damage = [0usize, 1, 1, 2, 0, 1, 2, 1][((idx / 6) % 8) as usize];
            let info = json!({"seed": cfg.seed, "worker": w, "index": idx});
            let c = match guarded(|| g::case(&mut rng, kind, n_damage)) {
                Ok(c) => c,
                Err(p) => {
                    // helpers of the library used while building (split_bytecode, roots)
                    if p.site().starts_with("src/") {
                        // a defect of the generator itself, not an observation about the library
                        rep.inconclusive = Some(format!("generator panicked: {} (case {info})", p.text));
                    } else {
                        rep.violation(format!("C19|panic|generator:{}", p.site()), format!("panic while building a transaction: {}", p.text), || info.clone());
                    }
                    continue;
                }
            };
            for a in &c.applied {
                if !a.starts_with("tight:") {
                    rep.count(&format!("damage:{a}"));
                } else {
                    rep.count("tightenings_applied");
                }
            }
            judge(&mut rep, &mut tally, &c, &info, idx < 12 && w == 0);
        }
        finish(&mut rep, tally);
        rep
    });

    rep.rule = "class = (transaction kind, verdict, set of rules violated per the reference model); cases = kind x {0,1,2} catalogue damages x default/tightened limits".into();
    rep.assume("max gas is taken from the library's Chargeable::max_gas (fee arithmetic is C18's subject); only its comparison with MAX_GAS_PER_TX is judged");
    rep.assume("Contract::root_from_code / Contract::initial_state_root give the bytecode and state roots of Create (judged by C15); the contract id is recomputed with sha2");
    rep.assume("Input::predicate_owner gives the predicate root address (judged by C15); predicate ownership is enforced by check_signatures, not by into_checked_basic, and judged only for transactions without signed inputs");
    rep.assume("the byte size of a transaction is that of the reference canonical encoder (refmodel::canon); postcard decides whether an Upgrade witness deserialises");
    rep.assume("into_checked_basic does not verify signatures: witnesses of signed inputs are arbitrary bytes");
    rep.note(rule_table());
    rep.note("not generated: in-memory policy states that neither the wire format nor the API can produce (non-zero value slot under an unset policy bit); unknown policy bits are injected through the serde representation");

    let n_rules = v::RULES.len() as u64;
    let sat = v::RULES.iter().filter(|r| rep.counter(&format!("rule_satisfied:{}", r.name)) > 0).count() as u64;
    let vio = v::RULES.iter().filter(|r| rep.counter(&format!("rule_violated:{}", r.name)) > 0).count() as u64;
    let alone = v::RULES.iter().filter(|r| rep.counter(&format!("rule_violated_alone:{}", r.name)) > 0).count() as u64;
    rep.gate("rules_seen_satisfied", sat, n_rules);
    rep.gate("rules_seen_violated", vio, n_rules);
    rep.gate("rules_seen_violated_alone", alone, n_rules - NOT_SOLELY_VIOLABLE.len() as u64);
    let dmg = g::CATALOGUE.iter().filter(|(n, _)| rep.counter(&format!("damage:{n}")) > 0).count() as u64;
    rep.gate("catalogue_entries_applied", dmg, g::CATALOGUE.len() as u64);
    let need = (total / 150).clamp(1, 5000);
    for k in ["Script", "Create", "Upgrade", "Upload", "Blob"] {
        rep.gate(&format!("accepted_with_balances_compared:{k}"), rep.counter(&format!("balances_compared:{k}")), need);
    }
    rep.gate("accepted:Mint", rep.counter("accepted:Mint"), need);
    rep.gate("undamaged_transactions_valid_per_model", rep.counter("undamaged_valid_per_model"), rep.counter("undamaged"));
    rep.gate("retryable_nonzero_compared", rep.counter("retryable_nonzero_compared"), 1);
    rep.gate("signature_stage_owner_mismatch_judged", rep.counter("signature_stage:owner_mismatch"), 1);
    rep.gate("signature_stage_owners_match_judged", rep.counter("signature_stage:owners_match"), 1);
    rep.gate("classes", rep.classes.len() as u64, 150);
    rep
}
