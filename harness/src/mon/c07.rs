//! C07 DA compression round-trip preserves transaction identity.
//!
//! Sequences of transactions of all kinds are compressed against one harness-side registry
//! context (`Ctx`), the compressed form goes through postcard, and is decompressed right
//! away against the same context state. Judged per transaction:
//!   1. `decompress(compress(tx)).id(chain) == tx.id(chain)`
//!   2. every field that is not listed in `SKIP_TABLE` is equal; a field listed there is the
//!      type's default (`Skip::Default`) or the default / the value held by the context
//!      (`Skip::FromContext`).
//!
//! The library provides `DecompressibleBy` for everything except `Coin<_>`, `Message<_>` and
//! `Mint` (they derive `Compress` only): their decompression is by design the context's job,
//! so it is written here (as fuel-core and the repository's test context do) and the
//! treatment of their skipped fields is this context's decision, stated in the table.

use crate::{
    Cfg,
    Panicked,
    Report,
    Rng,
    gen_tx::{
        self as g,
        FreeOpts,
    },
    guarded,
    hx,
    par,
};
use fuel_compression::{
    Compressible,
    CompressibleBy,
    ContextError,
    DecompressibleBy,
    RegistryKey,
};
use fuel_tx::{
    Cacheable,
    CompressedTransaction,
    CompressedUtxoId,
    Input,
    Mint,
    Output,
    ScriptCode,
    Transaction,
    TxPointer,
    UniqueIdentifier,
    UtxoId,
    field,
    input::{
        AsField,
        PredicateCode,
        coin::{
            Coin,
            CoinSpecification,
        },
        contract::Contract as InputContract,
        message::{
            Message,
            MessageSpecification,
        },
    },
    output::contract::Contract as OutputContract,
};
use fuel_types::{
    Address,
    AssetId,
    Bytes32,
    ChainId,
    ContractId,
    Nonce,
    Word,
    bytes::Bytes,
    canonical::Serialize,
};
use serde_json::json;
use std::{
    collections::{
        HashMap,
        HashSet,
    },
    fmt::Debug,
    future::Future,
    pin::pin,
    task::{
        Context,
        Poll,
        Waker,
    },
};

// ---------------------------------------------------------------------------------------
// the table of deliberately skipped fields
// ---------------------------------------------------------------------------------------

#[derive(Clone, Copy, Debug, PartialEq, Eq)]
enum Skip {
    /// `#[compress(skip)]` on a type whose decompression is derived: comes back as
    /// `Default::default()` (the derive never asks the context)
    Default,
    /// `#[compress(skip)]` on a type whose decompression is the context's job
    /// (`Coin`, `Message`, `Mint`): default, or the value the context holds
    FromContext,
}

/// (type, field, treatment). Transcribed from the `#[compress(skip)]` attributes in fuel-tx
/// (input/coin.rs, input/message.rs, input/contract.rs, output.rs, output/contract.rs,
/// script.rs, mint.rs, chargeable_transaction.rs). Every field that is *not* listed here
/// must survive the round trip unchanged. Written down literally on purpose: a later change
/// of an attribute must show up as a disagreement with this table.
const SKIP_TABLE: &[(&str, &str, Skip)] = &[
    // ScriptBody: malleable receipts root
    ("ScriptBody", "receipts_root", Skip::Default),
    // cached metadata
    ("ChargeableTransaction", "metadata", Skip::Default),
    ("Mint", "metadata", Skip::Default),
    // Mint: position in the block, known to whoever decompresses the block
    ("Mint", "tx_pointer", Skip::FromContext),
    // Input::Contract: everything but the contract id is malleable
    ("input::Contract", "utxo_id", Skip::Default),
    ("input::Contract", "balance_root", Skip::Default),
    ("input::Contract", "state_root", Skip::Default),
    ("input::Contract", "tx_pointer", Skip::Default),
    // Output::Contract
    ("output::Contract", "balance_root", Skip::Default),
    ("output::Contract", "state_root", Skip::Default),
    // Output::Change / Output::Variable: filled in by execution
    ("Output::Change", "amount", Skip::Default),
    ("Output::Variable", "to", Skip::Default),
    ("Output::Variable", "amount", Skip::Default),
    ("Output::Variable", "asset_id", Skip::Default),
    // Coin<_> (CoinSigned, CoinPredicate): looked up by UTXO id
    ("Coin", "owner", Skip::FromContext),
    ("Coin", "amount", Skip::FromContext),
    ("Coin", "asset_id", Skip::FromContext),
    ("Coin", "tx_pointer", Skip::Default),
    // Message<_> (4 variants): looked up by nonce
    ("Message", "sender", Skip::FromContext),
    ("Message", "recipient", Skip::FromContext),
    ("Message", "amount", Skip::FromContext),
    ("Message", "data", Skip::FromContext),
];

fn entry(ty: &str, field: &str) -> Option<(usize, Skip)> {
    SKIP_TABLE.iter().position(|(t, f, _)| *t == ty && *f == field).map(|i| (i, SKIP_TABLE[i].2))
}

fn treatment(ty: &str, field: &str) -> Option<Skip> {
    entry(ty, field).map(|(_, s)| s)
}

// ---------------------------------------------------------------------------------------
// block_on: the compression futures never pend
// ---------------------------------------------------------------------------------------

fn block_on<F: Future>(f: F) -> F::Output {
    let mut f = pin!(f);
    let mut cx = Context::from_waker(Waker::noop());
    for _ in 0..64 {
        if let Poll::Ready(v) = f.as_mut().poll(&mut cx) {
            return v;
        }
    }
    panic!("harness: a compression future stayed pending");
}

// ---------------------------------------------------------------------------------------
// the registry context
// ---------------------------------------------------------------------------------------

#[derive(Clone, Debug, PartialEq, Eq)]
enum CtxErr {
    MissingKey(&'static str),
    /// `RegistryKey::next()` keeps returning keys the transaction in progress references
    NoFreshKey(&'static str),
    BadValue(&'static str),
    MissingUtxo,
    MissingCoin,
    MissingMessage,
    NoTxPointer,
}

/// registry events of one transaction
#[derive(Clone, Copy, Debug, Default)]
struct Events {
    new_key: u32,
    reuse: u32,
    wrap: u32,
    evict: u32,
    default_key: u32,
    skipped_in_use: u32,
    wrote_reserved_key: u32,
}

/// One keyspace: key -> value plus the reverse index used to find an already registered
/// value. Keys are handed out with `RegistryKey::next()` from `cursor` (the last allocated
/// key). Writing to a key that already holds a value evicts it. `DEFAULT_VALUE` is reserved:
/// it always reads as the type's default and a write to it is lost (key.rs: "reserved for
/// the default value and cannot be written to").
struct Table {
    name: &'static str,
    by_key: HashMap<RegistryKey, Vec<u8>>,
    by_val: HashMap<Vec<u8>, RegistryKey>,
    cursor: RegistryKey,
    /// keys referenced by the transaction in progress: never evicted before it is done
    /// (a block's compression must not evict what the same block still references)
    in_use: HashSet<RegistryKey>,
}

/// number of writable keys
const KEY_SPACE: u32 = 0x00ff_ffff;

fn key(raw: u32) -> RegistryKey {
    RegistryKey::try_from(raw % KEY_SPACE).expect("below 2^24")
}

impl Table {
    /// start state: cursor close to `MAX_WRITABLE`, and older entries already sitting at the
    /// keys ahead of it (on both sides of the wrap), as in a registry that has been around
    /// the key space once. `pool` values are the ones transactions will ask for again.
    fn new(name: &'static str, rng: &mut Rng, pool: &[Vec<u8>], width: usize) -> Self {
        let max = RegistryKey::MAX_WRITABLE.as_u32();
        let cursor = match rng.below(10) {
            0 => max,
            1 => max - 1,
            2 => max - 2,
            3..=5 => max - rng.below(40) as u32,
            6..=7 => max - rng.below(400) as u32,
            8 => rng.below(3) as u32,
            _ => rng.below(KEY_SPACE as u64) as u32,
        };
        let mut t = Table {
            name,
            by_key: HashMap::new(),
            by_val: HashMap::new(),
            cursor: key(cursor),
            in_use: HashSet::new(),
        };
        // pre-existing entries at the next `ahead` positions (own arithmetic, not next())
        let ahead = if rng.chance(1, 8) { 0 } else { rng.range(8, 600) };
        let density = rng.range(1, 9);
        for i in 0..ahead {
            if !rng.chance(density, 10) {
                continue;
            }
            let k = key(((cursor as u64 + 1 + i) % KEY_SPACE as u64) as u32);
            let v = if rng.chance(1, 4) && !pool.is_empty() { rng.pick(pool).clone() } else { rng.bytes(width.max(1)) };
            if v.iter().all(|b| *b == 0) && v.len() == width || v.is_empty() || t.by_val.contains_key(&v) {
                continue;
            }
            t.by_val.insert(v.clone(), k);
            t.by_key.insert(k, v);
        }
        t
    }

    fn key_for(&mut self, v: &[u8], is_default: bool, ev: &mut Events) -> Result<RegistryKey, CtxErr> {
        if is_default {
            ev.default_key += 1;
            return Ok(RegistryKey::DEFAULT_VALUE);
        }
        if let Some(k) = self.by_val.get(v) {
            ev.reuse += 1;
            self.in_use.insert(*k);
            return Ok(*k);
        }
        for _ in 0..self.in_use.len() + 2 {
            let k = self.cursor.next(); // code under test
            if k.as_u32() <= self.cursor.as_u32() {
                ev.wrap += 1;
            }
            self.cursor = k;
            if self.in_use.contains(&k) {
                ev.skipped_in_use += 1;
                continue;
            }
            ev.new_key += 1;
            if k == RegistryKey::DEFAULT_VALUE {
                // reserved key: the write is lost
                ev.wrote_reserved_key += 1;
                return Ok(k);
            }
            if let Some(old) = self.by_key.insert(k, v.to_vec()) {
                self.by_val.remove(&old);
                ev.evict += 1;
            }
            self.by_val.insert(v.to_vec(), k);
            self.in_use.insert(k);
            return Ok(k);
        }
        Err(CtxErr::NoFreshKey(self.name))
    }

    /// `None` = the type's default
    fn get(&self, k: RegistryKey) -> Result<Option<&[u8]>, CtxErr> {
        if k == RegistryKey::DEFAULT_VALUE {
            return Ok(None);
        }
        self.by_key.get(&k).map(|v| Some(&v[..])).ok_or(CtxErr::MissingKey(self.name))
    }
}

#[derive(Clone, Debug, PartialEq)]
struct CoinInfo {
    owner: Address,
    amount: Word,
    asset_id: AssetId,
}

#[derive(Clone, Debug, PartialEq)]
struct MsgInfo {
    sender: Address,
    recipient: Address,
    amount: Word,
    data: Vec<u8>,
}

struct Ctx {
    address: Table,
    asset: Table,
    contract: Table,
    script: Table,
    predicate: Table,
    /// UTXO id <-> (pointer of the creating transaction, output index)
    utxo_fwd: HashMap<UtxoId, CompressedUtxoId>,
    utxo_back: HashMap<CompressedUtxoId, UtxoId>,
    txid_ptr: HashMap<Bytes32, TxPointer>,
    ptr_base: u32,
    /// what the chain knows about a coin / a message
    coins: HashMap<UtxoId, CoinInfo>,
    messages: HashMap<Nonce, MsgInfo>,
    /// block position of the transaction in progress (restores `Mint::tx_pointer`)
    cur_tx_pointer: Option<TxPointer>,
    ev: Events,
}

impl Ctx {
    fn new(rng: &mut Rng, pools: &Pools) -> Self {
        Ctx {
            address: Table::new("Address", rng, &pools.ids, 32),
            asset: Table::new("AssetId", rng, &pools.ids, 32),
            contract: Table::new("ContractId", rng, &pools.ids, 32),
            script: Table::new("ScriptCode", rng, &pools.scripts, 24),
            predicate: Table::new("PredicateCode", rng, &pools.predicates, 24),
            utxo_fwd: HashMap::new(),
            utxo_back: HashMap::new(),
            txid_ptr: HashMap::new(),
            ptr_base: match rng.below(3) {
                0 => 0,
                1 => u32::MAX - rng.below(50) as u32,
                _ => rng.u32(),
            },
            coins: HashMap::new(),
            messages: HashMap::new(),
            cur_tx_pointer: None,
            ev: Events::default(),
        }
    }

    fn begin_tx(&mut self, tx_pointer: Option<TxPointer>) {
        self.ev = Events::default();
        self.cur_tx_pointer = tx_pointer;
        for t in [&mut self.address, &mut self.asset, &mut self.contract, &mut self.script, &mut self.predicate] {
            t.in_use.clear();
        }
    }
}

impl ContextError for Ctx {
    type Error = CtxErr;
}

macro_rules! registry_id32 {
    ($t:ty, $table:ident, $name:literal) => {
        impl CompressibleBy<Ctx> for $t {
            async fn compress_with(&self, ctx: &mut Ctx) -> Result<RegistryKey, CtxErr> {
                let is_default = *self == <$t>::default();
                ctx.$table.key_for(self.as_ref(), is_default, &mut ctx.ev)
            }
        }
        impl DecompressibleBy<Ctx> for $t {
            async fn decompress_with(k: RegistryKey, ctx: &Ctx) -> Result<Self, CtxErr> {
                match ctx.$table.get(k)? {
                    None => Ok(<$t>::default()),
                    Some(b) => {
                        let a: [u8; 32] = b.try_into().map_err(|_| CtxErr::BadValue($name))?;
                        Ok(<$t>::new(a))
                    }
                }
            }
        }
    };
}

registry_id32!(Address, address, "Address");
registry_id32!(AssetId, asset, "AssetId");
registry_id32!(ContractId, contract, "ContractId");

macro_rules! registry_code {
    ($t:ty, $table:ident) => {
        impl CompressibleBy<Ctx> for $t {
            async fn compress_with(&self, ctx: &mut Ctx) -> Result<RegistryKey, CtxErr> {
                let is_default = *self == <$t>::default();
                ctx.$table.key_for(self.as_ref(), is_default, &mut ctx.ev)
            }
        }
        impl DecompressibleBy<Ctx> for $t {
            async fn decompress_with(k: RegistryKey, ctx: &Ctx) -> Result<Self, CtxErr> {
                match ctx.$table.get(k)? {
                    None => Ok(<$t>::default()),
                    Some(b) => Ok(<$t>::new(b.to_vec())),
                }
            }
        }
    };
}

registry_code!(ScriptCode, script);
registry_code!(PredicateCode, predicate);

impl CompressibleBy<Ctx> for UtxoId {
    async fn compress_with(&self, ctx: &mut Ctx) -> Result<CompressedUtxoId, CtxErr> {
        if let Some(c) = ctx.utxo_fwd.get(self) {
            return Ok(*c);
        }
        let n = ctx.txid_ptr.len() as u32;
        let base = ctx.ptr_base;
        let tx_pointer = *ctx
            .txid_ptr
            .entry(*self.tx_id())
            .or_insert_with(|| TxPointer::new(base.wrapping_add(n).into(), n.wrapping_mul(40503) as u16));
        let c = CompressedUtxoId { tx_pointer, output_index: self.output_index() };
        ctx.utxo_fwd.insert(*self, c);
        ctx.utxo_back.insert(c, *self);
        Ok(c)
    }
}

impl DecompressibleBy<Ctx> for UtxoId {
    async fn decompress_with(c: CompressedUtxoId, ctx: &Ctx) -> Result<Self, CtxErr> {
        ctx.utxo_back.get(&c).copied().ok_or(CtxErr::MissingUtxo)
    }
}

impl<S> DecompressibleBy<Ctx> for Coin<S>
where
    S: CoinSpecification,
    S::Predicate: DecompressibleBy<Ctx>,
    S::PredicateData: DecompressibleBy<Ctx>,
    S::PredicateGasUsed: DecompressibleBy<Ctx>,
    S::Witness: DecompressibleBy<Ctx>,
{
    async fn decompress_with(c: <Coin<S> as Compressible>::Compressed, ctx: &Ctx) -> Result<Self, CtxErr> {
        let utxo_id = UtxoId::decompress_with(c.utxo_id, ctx).await?;
        let info = ctx.coins.get(&utxo_id).ok_or(CtxErr::MissingCoin)?;
        Ok(Coin {
            utxo_id,
            owner: info.owner,
            amount: info.amount,
            asset_id: info.asset_id,
            tx_pointer: Default::default(),
            witness_index: <S::Witness as DecompressibleBy<Ctx>>::decompress_with(c.witness_index, ctx).await?,
            predicate_gas_used: <S::PredicateGasUsed as DecompressibleBy<Ctx>>::decompress_with(c.predicate_gas_used, ctx).await?,
            predicate: <S::Predicate as DecompressibleBy<Ctx>>::decompress_with(c.predicate, ctx).await?,
            predicate_data: <S::PredicateData as DecompressibleBy<Ctx>>::decompress_with(c.predicate_data, ctx).await?,
        })
    }
}

impl<S> DecompressibleBy<Ctx> for Message<S>
where
    S: MessageSpecification,
    S::Data: DecompressibleBy<Ctx> + Default,
    S::Predicate: DecompressibleBy<Ctx>,
    S::PredicateData: DecompressibleBy<Ctx>,
    S::PredicateGasUsed: DecompressibleBy<Ctx>,
    S::Witness: DecompressibleBy<Ctx>,
{
    async fn decompress_with(c: <Message<S> as Compressible>::Compressed, ctx: &Ctx) -> Result<Self, CtxErr> {
        let info = ctx.messages.get(&c.nonce).ok_or(CtxErr::MissingMessage)?;
        let mut m: Message<S> = Message {
            sender: info.sender,
            recipient: info.recipient,
            amount: info.amount,
            nonce: c.nonce,
            witness_index: <S::Witness as DecompressibleBy<Ctx>>::decompress_with(c.witness_index, ctx).await?,
            predicate_gas_used: <S::PredicateGasUsed as DecompressibleBy<Ctx>>::decompress_with(c.predicate_gas_used, ctx).await?,
            data: Default::default(),
            predicate: <S::Predicate as DecompressibleBy<Ctx>>::decompress_with(c.predicate, ctx).await?,
            predicate_data: <S::PredicateData as DecompressibleBy<Ctx>>::decompress_with(c.predicate_data, ctx).await?,
        };
        if let Some(d) = m.data.as_mut_field() {
            *d = Bytes::new(info.data.clone());
        }
        Ok(m)
    }
}

impl DecompressibleBy<Ctx> for Mint {
    async fn decompress_with(c: <Mint as Compressible>::Compressed, ctx: &Ctx) -> Result<Self, CtxErr> {
        Ok(Transaction::mint(
            ctx.cur_tx_pointer.ok_or(CtxErr::NoTxPointer)?,
            InputContract::decompress_with(c.input_contract, ctx).await?,
            OutputContract::decompress_with(c.output_contract, ctx).await?,
            Word::decompress_with(c.mint_amount, ctx).await?,
            AssetId::decompress_with(c.mint_asset_id, ctx).await?,
            Word::decompress_with(c.gas_price, ctx).await?,
        ))
    }
}

// ---------------------------------------------------------------------------------------
// field-wise comparison driven by SKIP_TABLE
// ---------------------------------------------------------------------------------------

struct Diff {
    /// `Type.field`
    field: String,
    kind: &'static str,
    detail: String,
}

struct Cmp<'a> {
    ctx: &'a Ctx,
    diffs: Vec<Diff>,
    /// per SKIP_TABLE entry: how often the original carried a non-default value there (only
    /// then a wrong treatment of the field can be seen)
    observable: &'a mut [u64],
}

fn short<T: Debug>(v: &T) -> String {
    let s = format!("{v:?}");
    if s.len() > 160 { format!("{}…", &s[..160]) } else { s }
}

impl Cmp<'_> {
    fn push<T: Debug>(&mut self, ty: &str, field: &str, kind: &'static str, o: &T, d: &T) {
        let name = format!("{ty}.{field}");
        if !self.diffs.iter().any(|x| x.field == name && x.kind == kind) {
            self.diffs.push(Diff { field: name, kind, detail: format!("original {} decompressed {}", short(o), short(d)) });
        }
    }

    /// a field that is never skipped
    fn same<T: PartialEq + Debug>(&mut self, ty: &'static str, field: &'static str, o: &T, d: &T) {
        assert!(treatment(ty, field).is_none(), "harness: {ty}.{field} is in SKIP_TABLE");
        if o != d {
            self.push(ty, field, "non-skipped field differs", o, d);
        }
    }

    /// a field judged by its table entry; `held` = the value the context holds for it
    fn fld<T: PartialEq + Debug + Default>(&mut self, ty: &'static str, field: &'static str, o: &T, d: &T, held: Option<&T>) {
        let e = entry(ty, field);
        if let Some((i, _)) = e {
            if *o != T::default() {
                self.observable[i] += 1;
            }
        }
        match e.map(|(_, s)| s) {
            None => {
                if o != d {
                    self.push(ty, field, "non-skipped field differs", o, d);
                }
            }
            Some(Skip::Default) => {
                if *d != T::default() {
                    self.push(ty, field, "skipped field is not the default", o, d);
                }
            }
            Some(Skip::FromContext) => {
                if *d != T::default() && held != Some(d) {
                    self.push(ty, field, "skipped field is neither the default nor the context's value", o, d);
                }
            }
        }
    }

    fn input_contract(&mut self, o: &InputContract, d: &InputContract) {
        const T: &str = "input::Contract";
        self.fld(T, "utxo_id", &o.utxo_id, &d.utxo_id, None);
        self.fld(T, "balance_root", &o.balance_root, &d.balance_root, None);
        self.fld(T, "state_root", &o.state_root, &d.state_root, None);
        self.fld(T, "tx_pointer", &o.tx_pointer, &d.tx_pointer, None);
        self.fld(T, "contract_id", &o.contract_id, &d.contract_id, None);
    }

    fn output_contract(&mut self, o: &OutputContract, d: &OutputContract) {
        const T: &str = "output::Contract";
        self.fld(T, "input_index", &o.input_index, &d.input_index, None);
        self.fld(T, "balance_root", &o.balance_root, &d.balance_root, None);
        self.fld(T, "state_root", &o.state_root, &d.state_root, None);
    }

    fn coin<S: CoinSpecification>(&mut self, o: &Coin<S>, d: &Coin<S>) {
        const T: &str = "Coin";
        let held = self.ctx.coins.get(&o.utxo_id).cloned();
        self.fld(T, "utxo_id", &o.utxo_id, &d.utxo_id, None);
        self.fld(T, "owner", &o.owner, &d.owner, held.as_ref().map(|h| &h.owner));
        self.fld(T, "amount", &o.amount, &d.amount, held.as_ref().map(|h| &h.amount));
        self.fld(T, "asset_id", &o.asset_id, &d.asset_id, held.as_ref().map(|h| &h.asset_id));
        self.fld(T, "tx_pointer", &o.tx_pointer, &d.tx_pointer, None);
        self.same(T, "witness_index", &o.witness_index.as_field(), &d.witness_index.as_field());
        self.same(T, "predicate_gas_used", &o.predicate_gas_used.as_field(), &d.predicate_gas_used.as_field());
        self.same(T, "predicate", &o.predicate.as_field(), &d.predicate.as_field());
        self.same(T, "predicate_data", &o.predicate_data.as_field(), &d.predicate_data.as_field());
    }

    fn message<S: MessageSpecification>(&mut self, o: &Message<S>, d: &Message<S>) {
        const T: &str = "Message";
        let held = self.ctx.messages.get(&o.nonce).cloned();
        self.fld(T, "sender", &o.sender, &d.sender, held.as_ref().map(|h| &h.sender));
        self.fld(T, "recipient", &o.recipient, &d.recipient, held.as_ref().map(|h| &h.recipient));
        self.fld(T, "amount", &o.amount, &d.amount, held.as_ref().map(|h| &h.amount));
        self.fld(T, "nonce", &o.nonce, &d.nonce, None);
        self.same(T, "witness_index", &o.witness_index.as_field(), &d.witness_index.as_field());
        self.same(T, "predicate_gas_used", &o.predicate_gas_used.as_field(), &d.predicate_gas_used.as_field());
        if let (Some(od), Some(dd)) = (o.data.as_field(), d.data.as_field()) {
            self.fld(T, "data", &od.to_vec(), &dd.to_vec(), held.as_ref().map(|h| &h.data));
        }
        self.same(T, "predicate", &o.predicate.as_field(), &d.predicate.as_field());
        self.same(T, "predicate_data", &o.predicate_data.as_field(), &d.predicate_data.as_field());
    }

    fn input(&mut self, o: &Input, d: &Input) {
        match (o, d) {
            (Input::CoinSigned(a), Input::CoinSigned(b)) => self.coin(a, b),
            (Input::CoinPredicate(a), Input::CoinPredicate(b)) => self.coin(a, b),
            (Input::Contract(a), Input::Contract(b)) => self.input_contract(a, b),
            (Input::MessageCoinSigned(a), Input::MessageCoinSigned(b)) => self.message(a, b),
            (Input::MessageCoinPredicate(a), Input::MessageCoinPredicate(b)) => self.message(a, b),
            (Input::MessageDataSigned(a), Input::MessageDataSigned(b)) => self.message(a, b),
            (Input::MessageDataPredicate(a), Input::MessageDataPredicate(b)) => self.message(a, b),
            _ => self.push("Input", "variant", "non-skipped field differs", &g::input_variant_name(o), &g::input_variant_name(d)),
        }
    }

    fn output(&mut self, o: &Output, d: &Output) {
        match (o, d) {
            (Output::Coin { to: a, amount: b, asset_id: c }, Output::Coin { to: x, amount: y, asset_id: z }) => {
                self.fld("Output::Coin", "to", a, x, None);
                self.fld("Output::Coin", "amount", b, y, None);
                self.fld("Output::Coin", "asset_id", c, z, None);
            }
            (Output::Contract(a), Output::Contract(b)) => self.output_contract(a, b),
            (Output::Change { to: a, amount: b, asset_id: c }, Output::Change { to: x, amount: y, asset_id: z }) => {
                self.fld("Output::Change", "to", a, x, None);
                self.fld("Output::Change", "amount", b, y, None);
                self.fld("Output::Change", "asset_id", c, z, None);
            }
            (Output::Variable { to: a, amount: b, asset_id: c }, Output::Variable { to: x, amount: y, asset_id: z }) => {
                self.fld("Output::Variable", "to", a, x, None);
                self.fld("Output::Variable", "amount", b, y, None);
                self.fld("Output::Variable", "asset_id", c, z, None);
            }
            (Output::ContractCreated { contract_id: a, state_root: b }, Output::ContractCreated { contract_id: x, state_root: y }) => {
                self.fld("Output::ContractCreated", "contract_id", a, x, None);
                self.fld("Output::ContractCreated", "state_root", b, y, None);
            }
            _ => self.push("Output", "variant", "non-skipped field differs", &g::output_variant_name(o), &g::output_variant_name(d)),
        }
    }

    /// the part shared by the five chargeable kinds
    fn chargeable<T>(&mut self, o: &T, d: &T)
    where
        T: field::Policies + field::Inputs + field::Outputs + field::Witnesses + Cacheable,
    {
        const T: &str = "ChargeableTransaction";
        self.same(T, "policies", o.policies(), d.policies());
        self.same(T, "inputs.len", &o.inputs().len(), &d.inputs().len());
        for (a, b) in o.inputs().iter().zip(d.inputs()) {
            self.input(a, b);
        }
        self.same(T, "outputs.len", &o.outputs().len(), &d.outputs().len());
        for (a, b) in o.outputs().iter().zip(d.outputs()) {
            self.output(a, b);
        }
        self.same(T, "witnesses", o.witnesses(), d.witnesses());
        self.fld(T, "metadata", &o.is_computed(), &d.is_computed(), None);
    }

    fn tx(&mut self, o: &Transaction, d: &Transaction) {
        use field::*;
        match (o, d) {
            (Transaction::Script(a), Transaction::Script(b)) => {
                const T: &str = "ScriptBody";
                self.fld(T, "script_gas_limit", a.script_gas_limit(), b.script_gas_limit(), None);
                self.fld(T, "receipts_root", a.receipts_root(), b.receipts_root(), None);
                self.fld(T, "script", a.script(), b.script(), None);
                self.fld(T, "script_data", a.script_data(), b.script_data(), None);
                self.chargeable(a, b);
            }
            (Transaction::Create(a), Transaction::Create(b)) => {
                const T: &str = "CreateBody";
                self.fld(T, "bytecode_witness_index", a.bytecode_witness_index(), b.bytecode_witness_index(), None);
                self.fld(T, "salt", a.salt(), b.salt(), None);
                self.fld(T, "storage_slots", a.storage_slots(), b.storage_slots(), None);
                self.chargeable(a, b);
            }
            (Transaction::Upgrade(a), Transaction::Upgrade(b)) => {
                self.same("UpgradeBody", "purpose", a.upgrade_purpose(), b.upgrade_purpose());
                self.chargeable(a, b);
            }
            (Transaction::Upload(a), Transaction::Upload(b)) => {
                const T: &str = "UploadBody";
                let (x, y) = (a.body(), b.body());
                self.fld(T, "root", &x.root, &y.root, None);
                self.fld(T, "witness_index", &x.witness_index, &y.witness_index, None);
                self.fld(T, "subsection_index", &x.subsection_index, &y.subsection_index, None);
                self.fld(T, "subsections_number", &x.subsections_number, &y.subsections_number, None);
                self.fld(T, "proof_set", &x.proof_set, &y.proof_set, None);
                self.chargeable(a, b);
            }
            (Transaction::Blob(a), Transaction::Blob(b)) => {
                const T: &str = "BlobBody";
                let (x, y) = (a.body(), b.body());
                self.fld(T, "id", &x.id, &y.id, None);
                self.fld(T, "witness_index", &x.witness_index, &y.witness_index, None);
                self.chargeable(a, b);
            }
            (Transaction::Mint(a), Transaction::Mint(b)) => {
                const T: &str = "Mint";
                let held = self.ctx.cur_tx_pointer;
                self.fld(T, "tx_pointer", a.tx_pointer(), b.tx_pointer(), held.as_ref());
                self.input_contract(a.input_contract(), b.input_contract());
                self.output_contract(a.output_contract(), b.output_contract());
                self.fld(T, "mint_amount", a.mint_amount(), b.mint_amount(), None);
                self.fld(T, "mint_asset_id", a.mint_asset_id(), b.mint_asset_id(), None);
                self.fld(T, "gas_price", a.gas_price(), b.gas_price(), None);
                self.fld(T, "metadata", &a.is_computed(), &b.is_computed(), None);
            }
            _ => self.push("Transaction", "variant", "non-skipped field differs", &g::tx_kind_name(o), &g::tx_kind_name(d)),
        }
    }
}

// ---------------------------------------------------------------------------------------
// workload
// ---------------------------------------------------------------------------------------

/// values shared by the transactions of one sequence
struct Pools {
    /// the 32-byte values `Rng::id32(6)` draws from (used to pre-populate the registries)
    ids: Vec<Vec<u8>>,
    scripts: Vec<Vec<u8>>,
    predicates: Vec<Vec<u8>>,
}

impl Pools {
    fn new(rng: &mut Rng) -> Self {
        let mut ids = vec![vec![0xffu8; 32]];
        for k in 0..6u64 {
            let mut a = [0u8; 32];
            Rng::new(0xABCD_0000 ^ k).fill(&mut a); // same construction as Rng::id32
            ids.push(a.to_vec());
        }
        let ns = rng.range(1, 5) as usize;
        let scripts = (0..ns).map(|_| rng.bytes_len_class(600)).collect();
        let np = rng.range(1, 5) as usize;
        let predicates = (0..np)
            .map(|_| loop {
                let v = rng.bytes_len_class(600);
                if !v.is_empty() {
                    break v;
                }
            })
            .collect();
        Pools { ids, scripts, predicates }
    }
}

fn inputs_mut(tx: &mut Transaction) -> Option<&mut Vec<Input>> {
    use field::Inputs;
    match tx {
        Transaction::Script(t) => Some(t.inputs_mut()),
        Transaction::Create(t) => Some(t.inputs_mut()),
        Transaction::Upgrade(t) => Some(t.inputs_mut()),
        Transaction::Upload(t) => Some(t.inputs_mut()),
        Transaction::Blob(t) => Some(t.inputs_mut()),
        Transaction::Mint(_) => None,
    }
}

/// A UTXO id determines the coin and a nonce determines the message ("a context holding the
/// same referenced data"): make a coin / message that was seen before carry the data the
/// chain knows, register the others.
fn settle_coin<S: CoinSpecification>(c: &mut Coin<S>, ctx: &mut Ctx) {
    match ctx.coins.get(&c.utxo_id) {
        Some(h) => {
            c.owner = h.owner;
            c.amount = h.amount;
            c.asset_id = h.asset_id;
        }
        None => {
            ctx.coins.insert(c.utxo_id, CoinInfo { owner: c.owner, amount: c.amount, asset_id: c.asset_id });
        }
    }
}

fn settle_message<S: MessageSpecification>(m: &mut Message<S>, ctx: &mut Ctx, rng: &mut Rng) {
    let has_data = m.data.as_field().is_some();
    if let Some(h) = ctx.messages.get(&m.nonce) {
        if h.data.is_empty() != has_data {
            m.sender = h.sender;
            m.recipient = h.recipient;
            m.amount = h.amount;
            if let Some(d) = m.data.as_mut_field() {
                *d = Bytes::new(h.data.clone());
            }
            return;
        }
        // a message with that nonce exists in the other flavour: this one is another message
        loop {
            m.nonce = Nonce::new(rng.arr());
            if !ctx.messages.contains_key(&m.nonce) {
                break;
            }
        }
    }
    let data = m.data.as_field().map(|d| d.to_vec()).unwrap_or_default();
    ctx.messages.insert(m.nonce, MsgInfo { sender: m.sender, recipient: m.recipient, amount: m.amount, data });
}

fn reuse_predicate(p: &mut PredicateCode, pools: &Pools, rng: &mut Rng) {
    if rng.chance(3, 4) {
        *p = PredicateCode::new(rng.pick(&pools.predicates).clone());
    }
}

fn next_tx(rng: &mut Rng, kind: usize, opts: &FreeOpts, pools: &Pools, ctx: &mut Ctx) -> Transaction {
    let mut tx = g::free_tx(rng, kind, opts);
    if let Transaction::Script(s) = &mut tx {
        if rng.chance(3, 4) {
            *field::Script::script_mut(s) = rng.pick(&pools.scripts).clone();
        }
        // `Transaction::script` leaves the (malleable, skipped) receipts root at its default
        *field::ReceiptsRoot::receipts_root_mut(s) = g::bytes32(rng);
    }
    if let Some(ins) = inputs_mut(&mut tx) {
        for i in ins.iter_mut() {
            match i {
                Input::CoinSigned(c) => settle_coin(c, ctx),
                Input::CoinPredicate(c) => {
                    reuse_predicate(&mut c.predicate, pools, rng);
                    settle_coin(c, ctx)
                }
                Input::Contract(_) => {}
                Input::MessageCoinSigned(m) => settle_message(m, ctx, rng),
                Input::MessageCoinPredicate(m) => {
                    reuse_predicate(&mut m.predicate, pools, rng);
                    settle_message(m, ctx, rng)
                }
                Input::MessageDataSigned(m) => settle_message(m, ctx, rng),
                Input::MessageDataPredicate(m) => {
                    reuse_predicate(&mut m.predicate, pools, rng);
                    settle_message(m, ctx, rng)
                }
            }
        }
    }
    tx
}

// ---------------------------------------------------------------------------------------
// one sequence
// ---------------------------------------------------------------------------------------

const STREAM: u64 = 0xC07_0000;

/// where a captured panic happened: `Err` = in this file (a harness defect)
fn panic_site(p: &Panicked) -> Result<String, ()> {
    let loc = p.text.rsplit(" @ ").next().unwrap_or("");
    if loc.contains("src/mon/c07.rs") || p.text.starts_with("harness:") {
        return Err(());
    }
    Ok(match loc.find("fuel-") {
        Some(i) => loc[i..].to_string(),
        None => loc.to_string(),
    })
}

/// `stop` = (index of the last transaction to run, its expected canonical hex) for replay
fn run_sequence(rep: &mut Report, seed: u64, worker: u64, index: u64, stop: Option<(u64, Option<String>)>, sample: bool) {
    let mut rng = Rng::derive(seed, STREAM + worker, index);
    let chain = ChainId::new(rng.word());
    let n = if rng.chance(1, 4) { rng.range(1, 8) } else { rng.range(1, 200) };
    let pools = Pools::new(&mut rng);
    let mut ctx = Ctx::new(&mut rng, &pools);
    let focus = if rng.chance(1, 3) { Some(rng.usize_below(g::TX_KINDS)) } else { None };
    let opts = FreeOpts {
        cap: *rng.pick(&[40usize, 300, 600, 1100]),
        max_inputs: rng.range(2, 6) as usize,
        max_outputs: rng.range(2, 6) as usize,
        max_witnesses: 3,
        allow_empty_distinguishing: false,
    };
    rep.count("sequences");
    rep.max("max_sequence_len", n);
    let mut observable = vec![0u64; SKIP_TABLE.len()];
    run_txs(rep, &mut rng, &mut ctx, &pools, &opts, focus, chain, n, seed, worker, index, stop, sample, &mut observable);
    for (i, (t, f, _)) in SKIP_TABLE.iter().enumerate() {
        rep.count_n(&format!("skipped_nondefault_in_original|{t}.{f}"), observable[i]);
    }
}

fn run_txs(
    rep: &mut Report,
    rng: &mut Rng,
    ctx: &mut Ctx,
    pools: &Pools,
    opts: &FreeOpts,
    focus: Option<usize>,
    chain: ChainId,
    n: u64,
    seed: u64,
    worker: u64,
    index: u64,
    stop: Option<(u64, Option<String>)>,
    sample: bool,
    observable: &mut [u64],
) {
    for k in 0..n {
        let kind = match focus {
            Some(f) if rng.chance(2, 3) => f,
            _ => rng.usize_below(g::TX_KINDS),
        };
        let tx = next_tx(rng, kind, opts, pools, ctx);
        let kname = g::tx_kind_name(&tx);
        let mint_ptr = match &tx {
            Transaction::Mint(m) => Some(*field::TxPointer::tx_pointer(m)),
            _ => None,
        };
        let replay = || json!({"seed": seed, "worker": worker, "index": index, "k": k, "tx_hex": guarded(|| hx(tx.to_bytes())).unwrap_or_default()});
        if let Some((last, Some(want))) = &stop {
            if *last == k && guarded(|| hx(tx.to_bytes())).unwrap_or_default() != *want {
                rep.inconclusive = Some("replay: the regenerated transaction differs from the recorded one (generator changed)".into());
                return;
            }
        }
        // the block position is known to the decompressing side for every transaction
        ctx.begin_tx(Some(mint_ptr.unwrap_or_else(|| TxPointer::new(rng.u32().into(), rng.u32() as u16))));
        rep.eval();
        rep.count(&format!("tx_{kname}"));

        // compress
        let compressed: CompressedTransaction = match guarded(|| block_on(tx.compress_with(&mut *ctx))) {
            Ok(Ok(c)) => c,
            Ok(Err(e)) => {
                rep.violation(format!("C07|compression fails|{e:?}"), format!("{kname}: compress_with returned {e:?} at transaction {k} of the sequence"), replay);
                return;
            }
            Err(p) => {
                match panic_site(&p) {
                    Ok(site) => rep.violation(format!("C07|compression panics|{site}"), format!("{kname}: compress_with panicked: {} (transaction {k} of the sequence, events so far {:?})", p.text, ctx.ev), replay),
                    Err(()) => rep.inconclusive = Some(format!("harness defect: {}", p.text)),
                }
                return; // the context may be half updated
            }
        };
        let ev = ctx.ev;
        for (name, hit) in [("new", ev.new_key), ("reuse", ev.reuse), ("wrap", ev.wrap), ("evict", ev.evict)] {
            if hit > 0 {
                rep.class(format!("{kname}|{name}"));
                rep.count_n(&format!("event_{name}"), hit as u64);
            }
        }
        rep.count_n("event_default_key", ev.default_key as u64);
        rep.count_n("event_allocation_skipped_key_in_use", ev.skipped_in_use as u64);
        rep.count_n("event_write_to_reserved_key", ev.wrote_reserved_key as u64);

        // through postcard
        let wire = guarded(|| postcard::to_allocvec(&compressed));
        let (on_wire, wire_len) = match wire {
            Ok(Ok(bytes)) => match guarded(|| postcard::from_bytes::<CompressedTransaction>(&bytes)) {
                Ok(Ok(c2)) => {
                    rep.count("postcard_roundtrips");
                    if c2 != compressed {
                        rep.count("observation_postcard_changed_compressed_form");
                    }
                    (c2, bytes.len())
                }
                _ => {
                    rep.count("unjudged_postcard_deserialize_failed");
                    (compressed.clone(), bytes.len())
                }
            },
            _ => {
                rep.count("unjudged_postcard_serialize_failed");
                (compressed.clone(), 0)
            }
        };

        // decompress against the same context state
        let dec: Transaction = match guarded(|| block_on(Transaction::decompress_with(on_wire, &*ctx))) {
            Ok(Ok(t)) => t,
            Ok(Err(e)) => {
                rep.violation(
                    format!("C07|decompression fails|{e:?}"),
                    format!("{kname}: decompress_with returned {e:?} right after compressing transaction {k} of the sequence against the same context (events {ev:?}); compressed {}", short(&compressed)),
                    replay,
                );
                continue;
            }
            Err(p) => {
                match panic_site(&p) {
                    Ok(site) => rep.violation(format!("C07|decompression panics|{site}"), format!("{kname}: decompress_with panicked: {} (transaction {k})", p.text), replay),
                    Err(()) => {
                        rep.inconclusive = Some(format!("harness defect: {}", p.text));
                        return;
                    }
                }
                continue;
            }
        };

        // oracle 2: field-wise
        let mut cmp = Cmp { ctx: &*ctx, diffs: vec![], observable: &mut *observable };
        match guarded(|| cmp.tx(&tx, &dec)) {
            Ok(()) => {}
            Err(p) => {
                rep.inconclusive = Some(format!("harness defect in the comparison: {}", p.text));
                return;
            }
        }
        let diffs = cmp.diffs;
        // oracle 1: identity
        let ids = guarded(|| (tx.id(&chain), dec.id(&chain)));
        let id_differs = match &ids {
            Ok((a, b)) => a != b,
            Err(p) => {
                rep.count("unjudged_id_panicked");
                rep.note(format!("UniqueIdentifier::id panicked: {}", p.text));
                false
            }
        };
        for d in &diffs {
            rep.violation(
                format!("C07|{}|{}", d.field, d.kind),
                format!(
                    "{kname} transaction {k} of the sequence: {}: {} ({}); registry events of this transaction {ev:?}{}",
                    d.field,
                    d.kind,
                    d.detail,
                    if id_differs { "; the transaction id differs as well" } else { "; the transaction id is unchanged" }
                ),
                replay,
            );
        }
        if id_differs && diffs.is_empty() {
            let (a, b) = ids.as_ref().map(|(a, b)| (hx(a), hx(b))).unwrap_or_default();
            rep.violation(
                format!("C07|{kname}|id differs although every field is as the table says"),
                format!("{kname} transaction {k}: id {a} before, {b} after the round trip; original {} decompressed {}", short(&tx), short(&dec)),
                replay,
            );
        }
        if diffs.is_empty() && !id_differs {
            rep.count("roundtrips_ok");
        }
        if sample && (k < 2 || ev.wrap > 0) {
            rep.sample(|| {
                json!({"seed": seed, "worker": worker, "index": index, "k": k, "kind": kname,
                "tx_hex": hx(tx.to_bytes()), "canonical_bytes": tx.size(), "compressed_postcard_bytes": wire_len,
                "id": ids.as_ref().map(|(a, _)| hx(a)).unwrap_or_default(),
                "events": {"new": ev.new_key, "reuse": ev.reuse, "wrap": ev.wrap, "evict": ev.evict, "default_key": ev.default_key},
                "cursors": {"Address": ctx.address.cursor.as_u32(), "AssetId": ctx.asset.cursor.as_u32(), "ContractId": ctx.contract.cursor.as_u32(),
                    "ScriptCode": ctx.script.cursor.as_u32(), "PredicateCode": ctx.predicate.cursor.as_u32()}})
            });
        }
        if let Some((last, _)) = &stop {
            if *last == k {
                return;
            }
        }
    }
}

pub fn run(cfg: &Cfg) -> Report {
    if let Some(r) = &cfg.replay {
        let mut rep = Report::new();
        let seed = r["seed"].as_u64().unwrap_or(0);
        let worker = r["worker"].as_u64().unwrap_or(0);
        let index = r["index"].as_u64().unwrap_or(0);
        let k = r["k"].as_u64().unwrap_or(u64::MAX);
        let want = r["tx_hex"].as_str().filter(|s| !s.is_empty()).map(|s| s.to_string());
        run_sequence(&mut rep, seed, worker, index, Some((k, want)), true);
        rep.note(format!("replayed sequence seed={seed} worker={worker} index={index} up to transaction {k} (the sequence is regenerated; the recorded hex of the last transaction is compared)"));
        return rep;
    }
    let total = cfg.budget(2_000, 100_000);
    let threads = cfg.threads.max(1) as u64;
    let per = total.div_ceil(threads);
    let mut rep = par(cfg.threads, |w| {
        let mut rep = Report::new();
        for i in 0..per {
            run_sequence(&mut rep, cfg.seed, w as u64, i, None, w == 0 && i < 3);
            if rep.inconclusive.is_some() {
                break;
            }
        }
        rep
    });
    rep.rule = "sequences of 1..200 free-form transactions (6 kinds, 7 input and 5 output variants, 64 policy masks) sharing one registry context whose key cursors start next to MAX_WRITABLE with older entries ahead; addresses / asset ids / contract ids / scripts / predicates / UTXO ids / nonces from small pools; class = (transaction kind, registry event in {new, reuse, wrap, evict} seen while compressing it)".into();
    rep.assume("UniqueIdentifier::id is the library's (C03 vouches for it); both ids are computed on metadata-free values");
    rep.assume("the context is the harness's: registry tables per keyspace with RegistryKey::next() allocation, DEFAULT_VALUE reserved for the type's default (a write to it is lost), no eviction of keys referenced by the transaction in progress; a UTXO id determines owner/amount/asset id and a nonce determines sender/recipient/amount/data");
    rep.assume("SKIP_TABLE (in c07.rs) is the list of deliberately skipped fields, transcribed from the compress(skip) attributes");
    rep.note("Coin<_>, Message<_> and Mint derive Compress only: their DecompressibleBy impls are the context's (written in the monitor like fuel-core does); owner/amount/asset_id, sender/recipient/amount/data and Mint::tx_pointer are restored from the context's tables, Coin::tx_pointer comes back as default. What is judged for them is the derived compressed form (which fields it carries) and the derived decompression of everything around them");
    rep.note("decompression happens right after compression against the same context state; decompressing an earlier transaction after one of its keys was evicted is outside the property");
    rep.note("the originals carry no cached metadata, so the two `metadata` entries of the table are only checked in the direction 'comes back empty'");
    rep.note("postcard failures of the compressed form are counted (unjudged_postcard_*), not judged: serialisation formats are C06's subject");
    rep.note(format!("skip table: {}", SKIP_TABLE.iter().map(|(t, f, s)| format!("{t}.{f}={s:?}")).collect::<Vec<_>>().join(", ")));
    rep.gate("classes(kind x event)", rep.classes.len() as u64, 24);
    // every skipped field (cached metadata aside) must have carried non-default values in the
    // originals, otherwise its treatment was not observable
    let fields: Vec<_> = SKIP_TABLE.iter().filter(|(_, f, _)| *f != "metadata").collect();
    let seen = fields.iter().filter(|(t, f, _)| rep.counter(&format!("skipped_nondefault_in_original|{t}.{f}")) >= 100).count();
    rep.gate("skipped fields with >= 100 non-default originals", seen as u64, fields.len() as u64);
    rep.gate("roundtrips_ok", rep.counter("roundtrips_ok"), 1000);
    rep.gate("postcard_roundtrips", rep.counter("postcard_roundtrips"), 1000);
    rep.gate("event_wrap", rep.counter("event_wrap"), 100);
    rep.gate("event_evict", rep.counter("event_evict"), 100);
    rep.gate("event_reuse", rep.counter("event_reuse"), 100);
    rep
}
