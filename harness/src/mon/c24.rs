//! C24 Programs can only write memory they own.
//!
//! Step monitor on the address view of the VM memory:
//!  (1) write monitor: every byte that differs between `pre` and `post` (addresses that are
//!      accessible in both) must lie in the frame's owned stack `[$ssp, max($sp))`, its
//!      owned heap `[$hp_post, prev_hp)` or the VM's own write set of that opcode; bytes
//!      that become accessible in the step must read zero unless the VM wrote them;
//!  (2) access table: for the simple memory opcodes the operand ranges are computed from
//!      the `pre` registers; inaccessible / unowned ranges must end in a panic from the
//!      expected set and never complete, owned accessible ranges must not be refused.
use super::grp_e::{
    Drive,
    drive,
    outcomes_equal,
    replay_record,
};
use crate::{
    Cfg,
    Report,
    Rng,
    guarded,
    par,
    prog::Weights,
    scenario::{
        self,
        Scenario,
        ScenarioOpts,
    },
    stepbus::{
        BusOpts,
        MEM_SIZE,
        Snap,
        Step,
        StepEnd,
        StepMonitor,
        run_stepped_on,
    },
    world::{
        Vm,
        World,
        new_vm,
        run_plain,
    },
};
use fuel_asm::{
    Instruction,
    PanicReason,
    RegId,
};
use fuel_tx::{
    Script,
    field::Outputs,
};
use fuel_types::canonical::Serialize;
use fuel_vm::constraints::reg_key::{
    Reg,
    RegMut,
};
use serde_json::json;

const RAM: u128 = MEM_SIZE as u128;
const FRAME_LEN: u64 = 600;
/// saved registers of the caller start at `$fp + 64`; `$hp` is register 7
const OFF_SAVED_HP: u64 = 64 + 8 * 7;
const OFF_CODE_SIZE: u64 = 576;

fn pad8(n: u128) -> u128 {
    n.div_ceil(8) * 8
}

/// maximal runs `[start, end)` of differing bytes of two equally long slices
fn diff_slices(a: &[u8], b: &[u8], base: u64, out: &mut Vec<(u64, u64)>) {
    if a == b {
        return;
    }
    const CH: usize = 512;
    let mut i = 0;
    while i < a.len() {
        let e = (i + CH).min(a.len());
        if a[i..e] != b[i..e] {
            for j in i..e {
                if a[j] != b[j] {
                    let addr = base + j as u64;
                    match out.last_mut() {
                        Some(last) if last.1 == addr => last.1 += 1,
                        _ => out.push((addr, addr + 1)),
                    }
                }
            }
        }
        i = e;
    }
}

/// Changed byte runs over the addresses accessible both before and after the step.
fn changed_runs(pre: &Snap, post: &Snap) -> Vec<(u64, u64)> {
    let mut out = vec![];
    // common stack prefix
    let n = pre.stack.len().min(post.stack.len());
    diff_slices(&pre.stack[..n], &post.stack[..n], 0, &mut out);
    // addresses that were stack before and are heap now (heap grew over the old extent)
    let ext_pre = pre.stack.len() as u64;
    if post.hp() < ext_pre {
        for a in post.hp()..ext_pre.min(pre.hp()) {
            if pre.byte(a) != post.byte(a) {
                match out.last_mut() {
                    Some(last) if last.1 == a => last.1 += 1,
                    _ => out.push((a, a + 1)),
                }
            }
        }
    }
    // common heap
    let h = pre.hp().max(post.hp()).min(MEM_SIZE);
    let len = (MEM_SIZE - h) as usize;
    if len > 0 && pre.heap.len() >= len && post.heap.len() >= len {
        diff_slices(&pre.heap[pre.heap.len() - len..], &post.heap[post.heap.len() - len..], h, &mut out);
    }
    out
}

/// first address of `run` not covered by the union of `allowed`
fn uncovered(run: (u64, u64), allowed: &[(u64, u64)]) -> Option<u64> {
    let mut cur = run.0;
    while cur < run.1 {
        let mut best = cur;
        for (a, b) in allowed {
            if *a <= cur && cur < *b && *b > best {
                best = *b;
            }
        }
        if best == cur {
            return Some(cur);
        }
        cur = best;
    }
    None
}

#[derive(Clone, Copy)]
struct Opnd {
    addr: u128,
    len: u128,
    write: bool,
}

/// Operand ranges of the simple memory opcodes (instruction set specification), from the
/// registers before the step. `.1` = the instruction has a destination register that is
/// reserved (the VM may refuse it before touching memory).
fn operands(i: &Instruction, pre: &Snap) -> Option<(Vec<Opnd>, bool)> {
    let r = |id: RegId| pre.regs[id.to_u8() as usize] as u128;
    let rd = |addr: u128, len: u128| Opnd { addr, len, write: false };
    let wr = |addr: u128, len: u128| Opnd { addr, len, write: true };
    let reserved = |id: RegId| id.to_u8() < 16;
    Some(match i {
        Instruction::LB(o) => {
            let (a, b, imm) = o.unpack();
            (vec![rd(r(b) + u16::from(imm) as u128, 1)], reserved(a))
        }
        Instruction::LQW(o) => {
            let (a, b, imm) = o.unpack();
            (vec![rd(r(b) + 2 * u16::from(imm) as u128, 2)], reserved(a))
        }
        Instruction::LHW(o) => {
            let (a, b, imm) = o.unpack();
            (vec![rd(r(b) + 4 * u16::from(imm) as u128, 4)], reserved(a))
        }
        Instruction::LW(o) => {
            let (a, b, imm) = o.unpack();
            (vec![rd(r(b) + 8 * u16::from(imm) as u128, 8)], reserved(a))
        }
        Instruction::SB(o) => {
            let (a, _, imm) = o.unpack();
            (vec![wr(r(a) + u16::from(imm) as u128, 1)], false)
        }
        Instruction::SQW(o) => {
            let (a, _, imm) = o.unpack();
            (vec![wr(r(a) + 2 * u16::from(imm) as u128, 2)], false)
        }
        Instruction::SHW(o) => {
            let (a, _, imm) = o.unpack();
            (vec![wr(r(a) + 4 * u16::from(imm) as u128, 4)], false)
        }
        Instruction::SW(o) => {
            let (a, _, imm) = o.unpack();
            (vec![wr(r(a) + 8 * u16::from(imm) as u128, 8)], false)
        }
        Instruction::MCL(o) => {
            let (a, b) = o.unpack();
            (vec![wr(r(a), r(b))], false)
        }
        Instruction::MCLI(o) => {
            let (a, imm) = o.unpack();
            (vec![wr(r(a), u32::from(imm) as u128)], false)
        }
        Instruction::MCP(o) => {
            let (a, b, c) = o.unpack();
            (vec![wr(r(a), r(c)), rd(r(b), r(c))], false)
        }
        Instruction::MCPI(o) => {
            let (a, b, imm) = o.unpack();
            (vec![wr(r(a), u16::from(imm) as u128), rd(r(b), u16::from(imm) as u128)], false)
        }
        Instruction::MEQ(o) => {
            let (a, b, c, d) = o.unpack();
            (vec![rd(r(b), r(d)), rd(r(c), r(d))], reserved(a))
        }
        Instruction::LOGD(o) => {
            let (_, _, c, d) = o.unpack();
            (vec![rd(r(c), r(d))], false)
        }
        Instruction::RETD(o) => {
            let (a, b) = o.unpack();
            (vec![rd(r(a), r(b))], false)
        }
        Instruction::S256(o) => {
            let (a, b, c) = o.unpack();
            (vec![wr(r(a), 32), rd(r(b), r(c))], false)
        }
        Instruction::K256(o) => {
            let (a, b, c) = o.unpack();
            (vec![wr(r(a), 32), rd(r(b), r(c))], false)
        }
        // signature recovery: 64-byte key (or 64 zero bytes when recovery fails) written at
        // $rA, signature at $rB, message hash at $rC
        Instruction::ECK1(o) => {
            let (a, b, c) = o.unpack();
            (vec![wr(r(a), 64), rd(r(b), 64), rd(r(c), 32)], false)
        }
        Instruction::ECR1(o) => {
            let (a, b, c) = o.unpack();
            (vec![wr(r(a), 64), rd(r(b), 64), rd(r(c), 32)], false)
        }
        // ed25519 verification only reads: key, signature, message of $rD bytes (0 = 32)
        Instruction::ED19(o) => {
            let (a, b, c, d) = o.unpack();
            let l = if r(d) == 0 { 32 } else { r(d) };
            (vec![rd(r(a), 32), rd(r(b), 64), rd(r(c), l)], false)
        }
        _ => return None,
    })
}

/// Instructions that have no memory destination in the instruction set.
fn never_writes_memory(i: &Instruction) -> bool {
    use Instruction::*;
    matches!(
        i,
        ADD(_) | ADDI(_) | AND(_) | ANDI(_) | DIV(_) | DIVI(_) | EQ(_) | EXP(_) | EXPI(_) | GT(_) | LT(_) | MLOG(_) | MOD(_) | MODI(_) | MOVE(_) | MOVI(_) | MROO(_) | MUL(_) | MULI(_)
            | MLDV(_) | NIOP(_) | NOOP(_) | NOT(_) | OR(_) | ORI(_) | SLL(_) | SLLI(_) | SRL(_) | SRLI(_) | SUB(_) | SUBI(_) | XOR(_) | XORI(_) | JI(_) | JNEI(_) | JNZI(_) | JMP(_) | JNE(_)
            | JMPF(_) | JMPB(_) | JNZF(_) | JNZB(_) | JNEF(_) | JNEB(_) | JAL(_) | LB(_) | LW(_) | LHW(_) | LQW(_) | MEQ(_) | LOG(_) | LOGD(_) | RET(_) | RETD(_) | POPL(_) | POPH(_) | CFS(_)
            | CFSI(_) | GM(_) | GTF(_) | FLAG(_) | BAL(_) | CSIZ(_) | BSIZ(_) | BHEI(_) | TIME(_) | SRW(_) | SWW(_) | SWWQ(_) | SCWQ(_) | WDCM(_) | WQCM(_) | MINT(_) | BURN(_) | ED19(_)
    )
}

struct MemMon {
    tx_off: u64,
    script_ssp: u64,
    max_inputs: u64,
    started: bool,
}

impl MemMon {
    fn new() -> Self {
        Self { tx_off: 0, script_ssp: 0, max_inputs: 0, started: false }
    }

    /// caller's saved `$hp` (end of the heap this frame owns)
    fn prev_hp(&self, s: &Snap) -> Option<u64> {
        if s.fp() == 0 {
            return Some(MEM_SIZE);
        }
        s.word_at(s.fp().checked_add(OFF_SAVED_HP)?)
    }

    fn region(&self, a: u128, s: &Snap, prev_hp: u64) -> &'static str {
        if a >= RAM {
            return "beyond-ram";
        }
        let a = a as u64;
        if a >= s.hp() {
            return if a < prev_hp { "own-heap" } else { "heap-of-caller" };
        }
        if a >= s.stack_extent() {
            return "gap";
        }
        if a >= s.sp() {
            return "above-sp";
        }
        if a >= s.ssp() {
            return "own-stack";
        }
        if s.fp() != 0 {
            if a >= s.fp() + FRAME_LEN {
                return "code";
            }
            if a >= s.fp() {
                return "own-frame";
            }
            if a >= self.script_ssp {
                return "caller-stack";
            }
        } else if a >= self.script_ssp {
            return "loaded-code";
        }
        if a >= self.tx_off.saturating_sub(8) {
            return "tx-bytes";
        }
        if a >= 64 {
            return "balance-table";
        }
        "vm-header"
    }

    fn range_class(&self, o: &Opnd, s: &Snap, prev_hp: u64) -> String {
        let a = self.region(o.addr, s, prev_hp);
        let b = self.region(o.addr + o.len.max(1) - 1, s, prev_hp);
        if a == b { a.to_string() } else { format!("{a}..{b}") }
    }

    /// the 8 value bytes of the balance-table entry of the asset whose id is at `ptr`
    fn balance_entry(&self, pre: &Snap, asset: Option<Vec<u8>>) -> Option<(u64, u64)> {
        let asset = asset?;
        for i in 0..self.max_inputs {
            let off = 64 + 40 * i;
            if pre.bytes(off, 32)? == asset {
                return Some((off + 32, off + 40));
            }
        }
        None
    }

    fn write_monitor(&self, s: &Step, rep: &mut Report) {
        let (pre, post) = (s.pre, s.post);
        let name = s.opcode_name();
        let terminal = !matches!(s.end, StepEnd::Continue);
        let prev_hp = self.prev_hp(pre);
        let r = |id: RegId| pre.regs[id.to_u8() as usize];
        // ---- what this step may write
        let mut allowed: Vec<(u64, u64)> = vec![];
        let mut vm_own: Vec<(u64, u64)> = vec![];
        allowed.push((pre.ssp(), pre.sp().max(post.sp())));
        match prev_hp {
            Some(p) => allowed.push((post.hp(), p)),
            None => rep.count("unjudged_prev_hp_not_readable"),
        }
        match &s.instr {
            Some(Instruction::CALL(o)) => {
                let (_, _, c, _) = o.unpack();
                vm_own.push((pre.sp(), pre.sp().max(post.sp())));
                if pre.fp() == 0 {
                    if let Some(e) = self.balance_entry(pre, pre.bytes(r(c), 32)) {
                        vm_own.push(e);
                    }
                }
            }
            Some(Instruction::LDC(o)) => {
                let (_, _, c, _) = o.unpack();
                let end = (pre.ssp() as u128 + pad8(r(c) as u128)).min(RAM) as u64;
                vm_own.push((pre.ssp(), end));
                if pre.fp() != 0 {
                    vm_own.push((pre.fp() + OFF_CODE_SIZE, pre.fp() + OFF_CODE_SIZE + 8));
                }
            }
            Some(Instruction::TR(o)) => {
                let (_, _, c) = o.unpack();
                if pre.fp() == 0 {
                    if let Some(e) = self.balance_entry(pre, pre.bytes(r(c), 32)) {
                        vm_own.push(e);
                    }
                }
            }
            Some(Instruction::TRO(o)) => {
                let (_, b, _, d) = o.unpack();
                if pre.fp() == 0 {
                    if let Some(e) = self.balance_entry(pre, pre.bytes(r(d), 32)) {
                        vm_own.push(e);
                    }
                }
                // the variable output inside the tx image (layout from fuel-tx)
                let idx = r(b) as usize;
                if let (Some(off), Some(out)) = (s.tx.outputs_offset_at(idx), s.tx.outputs().get(idx)) {
                    let start = self.tx_off + off as u64;
                    vm_own.push((start, start + out.size() as u64));
                }
            }
            Some(Instruction::SMO(_)) => {
                if pre.fp() == 0 {
                    if let Some(e) = self.balance_entry(pre, pre.bytes(32, 32)) {
                        vm_own.push(e);
                    }
                }
            }
            Some(Instruction::PSHL(_)) | Some(Instruction::PSHH(_)) => vm_own.push((pre.sp(), pre.sp().max(post.sp()))),
            _ => {}
        }
        if terminal {
            // epilogue: output finalisation inside the tx image
            vm_own.push((self.tx_off, self.script_ssp));
        }
        allowed.extend(vm_own.iter().cloned());
        // ---- what changed
        let runs = changed_runs(pre, post);
        rep.count("steps_diffed");
        let php = prev_hp.unwrap_or(post.hp());
        if !runs.is_empty() {
            rep.count("steps_that_changed_memory");
            let first = runs[0];
            rep.class(format!("diff|{name}|{}|{}", self.region(first.0 as u128, pre, php), if terminal { "terminal" } else { "continue" }));
        }
        for run in runs.iter() {
            if let Some(addr) = uncovered(*run, &allowed) {
                let region = self.region(addr as u128, pre, php);
                rep.violation(
                    format!("C24|{name}|wrote outside owned memory|{region}{}", if terminal { "|at program end" } else { "" }),
                    format!(
                        "address {addr} changed {:?} -> {:?} (changed run [{}, {})); ssp {} sp {}->{} hp {}->{} fp {} prev_hp {:?} extent {} instr {:?}",
                        pre.byte(addr),
                        post.byte(addr),
                        run.0,
                        run.1,
                        pre.ssp(),
                        pre.sp(),
                        post.sp(),
                        pre.hp(),
                        post.hp(),
                        pre.fp(),
                        prev_hp,
                        pre.stack_extent(),
                        s.instr
                    ),
                    || json!(null),
                );
                break;
            }
        }
        if !terminal && !runs.is_empty() {
            if let Some(i) = &s.instr {
                if never_writes_memory(i) {
                    rep.violation(
                        format!("C24|{name}|memory changed by an instruction without a memory destination"),
                        format!("changed run [{}, {}) instr {i:?}", runs[0].0, runs[0].1),
                        || json!(null),
                    );
                }
            }
        }
        // ---- bytes that became accessible must read zero unless the VM wrote them
        let (ext_pre, ext_post) = (pre.stack_extent(), post.stack_extent());
        if ext_post > ext_pre {
            rep.count("steps_growing_the_stack_extent");
            let fresh = &post.stack[ext_pre as usize..ext_post as usize];
            if fresh.iter().any(|b| *b != 0) {
                for (k, b) in fresh.iter().enumerate() {
                    let a = ext_pre + k as u64;
                    if *b != 0 && uncovered((a, a + 1), &vm_own).is_some() {
                        rep.violation(
                            format!("C24|{name}|newly accessible stack memory does not read zero"),
                            format!("address {a} reads {b} after the extent grew {ext_pre} -> {ext_post}"),
                            || json!(null),
                        );
                        break;
                    }
                }
            }
        }
        if post.hp() < pre.hp() {
            rep.count("steps_growing_the_heap");
            let n = pre.hp() - post.hp();
            match post.bytes(post.hp(), n) {
                Some(fresh) => {
                    if let Some(k) = fresh.iter().position(|b| *b != 0) {
                        rep.violation(
                            format!("C24|{name}|newly allocated heap memory does not read zero"),
                            format!("address {} reads {} after $hp {} -> {}", post.hp() + k as u64, fresh[k], pre.hp(), post.hp()),
                            || json!(null),
                        );
                    }
                }
                None => rep.violation(format!("C24|{name}|newly allocated heap memory not accessible"), format!("hp {} -> {}", pre.hp(), post.hp()), || json!(null)),
            }
        }
    }

    fn access_table(&self, s: &Step, rep: &mut Report) {
        let pre = s.pre;
        let Some(instr) = &s.instr else {
            return;
        };
        let Some((ops, dst_reserved)) = operands(instr, pre) else {
            return;
        };
        if matches!(s.end, StepEnd::Error(_)) {
            return;
        }
        let name = s.opcode_name();
        let Some(prev_hp) = self.prev_hp(pre) else {
            return;
        };
        let own = s.own_panic();
        let outcome = match own {
            Some(r) => format!("panic:{r:?}"),
            None => "ok".to_string(),
        };
        rep.count("access_steps_judged");
        let inaccessible = |o: &Opnd| -> bool {
            if o.len == 0 {
                // a zero-length access is only specified to fail beyond the memory size
                return o.addr > RAM;
            }
            o.addr + o.len > RAM || !pre.accessible(o.addr as u64, o.len as u64)
        };
        let owned = |o: &Opnd| -> bool {
            let (a, e) = (o.addr as u64, (o.addr + o.len) as u64);
            (pre.ssp() <= a && e <= pre.sp()) || (pre.hp() <= a && e <= prev_hp)
        };
        let mem_reason = |r: PanicReason| matches!(r, PanicReason::MemoryOverflow | PanicReason::UninitalizedMemoryAccess | PanicReason::MemoryOwnership | PanicReason::MemoryWriteOverlap);
        let in_set = |r: PanicReason| mem_reason(r) || r == PanicReason::OutOfGas || (dst_reserved && r == PanicReason::ReservedRegisterNotWritable);
        if let Some(bad) = ops.iter().find(|o| inaccessible(o)) {
            let rc = self.range_class(bad, pre, prev_hp);
            rep.class(format!("access|{name}|{}|{rc}|{outcome}", if bad.write { "w" } else { "r" }));
            match own {
                None => rep.violation(
                    format!("C24|{name}|inaccessible range accessed without a panic|{rc}"),
                    format!("range [{}, +{}) extent {} hp {} instr {instr:?}", bad.addr, bad.len, pre.stack_extent(), pre.hp()),
                    || json!(null),
                ),
                Some(r) if !in_set(r) => rep.violation(
                    format!("C24|{name}|invalid access ended with an unexpected panic reason|{r:?}"),
                    format!("range [{}, +{}) class {rc} instr {instr:?}", bad.addr, bad.len),
                    || json!(null),
                ),
                Some(_) => rep.count("refused_inaccessible_ranges"),
            }
            return;
        }
        if ops.iter().any(|o| o.len == 0) {
            rep.count("unjudged_zero_length_operand");
            rep.class(format!("access|{name}|zero-length|{outcome}"));
            return;
        }
        // all ranges are non-empty and accessible
        let overlap = match instr {
            Instruction::MCP(_) | Instruction::MCPI(_) => {
                let (d, src) = (ops[0], ops[1]);
                d.addr < src.addr + src.len && src.addr < d.addr + d.len
            }
            _ => false,
        };
        let unowned = ops.iter().find(|o| o.write && !owned(o));
        if let Some(w) = ops.iter().find(|o| o.write) {
            if !overlap && unowned.is_none() && pre.ssp() <= w.addr as u64 && w.addr as u64 + w.len as u64 == pre.sp() {
                rep.count("writes_ending_exactly_at_sp");
            }
            if !overlap && unowned.is_none() && w.addr as u64 >= pre.hp() && (w.addr + w.len) as u64 == prev_hp {
                rep.count("writes_ending_exactly_at_prev_hp");
            }
            if !overlap && unowned.is_none() && (w.addr as u64 == pre.hp() || w.addr as u64 == pre.ssp()) {
                rep.count("writes_starting_exactly_at_hp_or_ssp");
            }
        }
        if overlap {
            rep.class(format!("access|{name}|overlap|{outcome}"));
            match own {
                None => rep.violation(format!("C24|{name}|overlapping copy accepted"), format!("dst [{}, +{}) src [{}, +{})", ops[0].addr, ops[0].len, ops[1].addr, ops[1].len), || json!(null)),
                Some(r) if !in_set(r) => rep.violation(format!("C24|{name}|invalid access ended with an unexpected panic reason|{r:?}"), format!("overlapping copy instr {instr:?}"), || json!(null)),
                Some(_) => rep.count("refused_overlapping_copies"),
            }
            return;
        }
        if let Some(bad) = unowned {
            let rc = self.range_class(bad, pre, prev_hp);
            rep.class(format!("access|{name}|w|{rc}|{outcome}"));
            match own {
                None => rep.violation(
                    format!("C24|{name}|write to accessible but unowned memory completed|{rc}"),
                    format!("range [{}, +{}) ssp {} sp {} hp {} prev_hp {prev_hp} fp {} instr {instr:?}", bad.addr, bad.len, pre.ssp(), pre.sp(), pre.hp(), pre.fp()),
                    || json!(null),
                ),
                Some(r) if !(r == PanicReason::MemoryOwnership || r == PanicReason::OutOfGas || (dst_reserved && r == PanicReason::ReservedRegisterNotWritable)) => rep.violation(
                    format!("C24|{name}|unowned write ended with an unexpected panic reason|{r:?}"),
                    format!("range [{}, +{}) class {rc} instr {instr:?}", bad.addr, bad.len),
                    || json!(null),
                ),
                Some(_) => {
                    rep.count("refused_unowned_writes");
                    rep.count(&format!("refused_unowned_writes_{}", rc.split("..").next().unwrap_or("")));
                }
            }
            return;
        }
        // everything accessible and owned: must not be refused for a memory reason
        let o = ops[0];
        rep.class(format!("access|{name}|{}|{}|{outcome}", if o.write { "w" } else { "r" }, self.range_class(&o, pre, prev_hp)));
        match own {
            Some(r) if mem_reason(r) => rep.violation(
                format!("C24|{name}|valid access refused|{r:?}"),
                format!(
                    "operands {:?}; ssp {} sp {} hp {} prev_hp {prev_hp} extent {} instr {instr:?}",
                    ops.iter().map(|o| (o.addr, o.len, o.write)).collect::<Vec<_>>(),
                    pre.ssp(),
                    pre.sp(),
                    pre.hp(),
                    pre.stack_extent()
                ),
                || json!(null),
            ),
            _ => {
                rep.count("valid_accesses_accepted");
                if ops.iter().any(|o| !o.write && o.addr as u64 >= pre.sp() && (o.addr as u64) < pre.hp()) {
                    // readable although above $sp: the VM's accessibility bound is the
                    // high-water mark of the stack, not $sp (reported, not judged)
                    rep.count("observed_reads_between_sp_and_stack_extent");
                }
            }
        }
    }
}

impl StepMonitor for MemMon {
    fn on_start(&mut self, w: &World, first: &Snap, _tx: &Script, _rep: &mut Report) {
        self.max_inputs = w.params.tx_params().max_inputs() as u64;
        // documented memory image: tx id 32 | base asset 32 | balance table | tx size 8 | tx
        self.tx_off = 32 + 32 + self.max_inputs * 40 + 8;
        self.script_ssp = first.ssp();
        self.started = true;
    }

    fn on_step(&mut self, _w: &World, s: &Step, rep: &mut Report) {
        if !self.started || !s.pre.mem_captured {
            return;
        }
        if s.ambiguous_self_jump() {
            rep.count("unjudged_self_jump_steps");
            return;
        }
        if matches!(s.end, StepEnd::Error(_)) {
            rep.count("unjudged_steps_ending_in_an_interpreter_error");
            return;
        }
        self.region_registers(s, rep);
        self.write_monitor(s, rep);
        self.access_table(s, rep);
    }
}

impl MemMon {
    /// (3) The registers that delimit what a program owns ($ssp, $sp, $fp, $hp) and the
    /// constants $zero/$one move only through the instructions that are specified to move
    /// them; any other instruction naming one of them as a destination must be refused
    /// (ReservedRegisterNotWritable). Ownership is judged from these registers, so an
    /// instruction that rewrites one of them would turn stray writes into "owned" ones.
    fn region_registers(&mut self, s: &Step, rep: &mut Report) {
        if !matches!(s.end, StepEnd::Continue) {
            return;
        }
        let Some(i) = &s.instr else { return };
        use Instruction::*;
        let frame_ops = matches!(i, CALL(_) | RET(_) | RETD(_));
        let allowed = |reg: RegId| -> bool {
            if reg == RegId::HP {
                matches!(i, ALOC(_))
            } else if reg == RegId::SP {
                frame_ops || matches!(i, CFEI(_) | CFE(_) | CFSI(_) | CFS(_) | PSHL(_) | PSHH(_) | POPL(_) | POPH(_) | LDC(_))
            } else if reg == RegId::SSP {
                frame_ops || matches!(i, LDC(_))
            } else if reg == RegId::FP {
                frame_ops
            } else {
                false
            }
        };
        for reg in [RegId::ZERO, RegId::ONE, RegId::SSP, RegId::SP, RegId::FP, RegId::HP] {
            let k = reg.to_u8() as usize;
            if s.pre.regs[k] != s.post.regs[k] && !allowed(reg) {
                rep.violation(
                    format!("C24|region register changed by an instruction that must not write it|{}|register {k}", s.opcode_name()),
                    format!("{i:?}: register {k} {:#x} -> {:#x} (pc {})", s.pre.regs[k], s.post.regs[k], s.pre.pc()),
                    || json!(null),
                );
            }
        }
        rep.count("region_register_steps_checked");
    }
}

fn scenario_opts(idx: u64, rng: &mut Rng) -> ScenarioOpts {
    let mut w = Weights::default();
    w.mem = 18;
    w.heap = 12;
    w.stack = 10;
    w.call = 14;
    w.frame = 14;
    w.crypto = 5;
    w.hostile = match idx % 5 {
        0 => 250,
        1 => 40,
        _ => 100,
    };
    let mut cw = w.clone();
    cw.frame = 18;
    cw.recurse = 150;
    // storage instructions with reserved destination registers ($ssp, $sp, $fp, $hp among
    // them): a register write that skips the reserved check would move a region boundary
    cw.storage = 8;
    cw.storage_rich = 400;
    // no free schedule here: with recursion and nested calls a free run is not bounded by gas
    let schedule = match idx % 8 {
        3 => 1,
        6 => 3,
        _ => 0,
    };
    let chain = if idx % 6 == 2 { 1 + rng.below(6) as usize } else { 0 };
    ScenarioOpts { weights: w, contract_weights: cw, schedule, chain, max_contracts: 4, tight_gas: 40, ragged_code: 300, ..Default::default() }
}

const DIRTY_STREAM: u64 = 0x24d;

/// Fill the VM's stack and heap buffers with non-zero bytes; `transact` resets the memory
/// (keeping the allocations), so that newly accessible bytes expose missing zeroing.
fn dirty(vm: &mut Vm, rng: &mut Rng) -> bool {
    let n_stack = 4096 + rng.below(300_000);
    let n_heap = 64 + rng.below(300_000);
    guarded(|| {
        let m = vm.memory_mut();
        if m.grow_stack(n_stack).is_err() {
            return false;
        }
        match m.write_noownerchecks(0u64, n_stack) {
            Ok(b) => b.fill(0xa5),
            Err(_) => return false,
        }
        let sp: u64 = n_stack;
        let mut hp: u64 = MEM_SIZE;
        if m.grow_heap_by(Reg::new(&sp), RegMut::new(&mut hp), n_heap).is_err() {
            return false;
        }
        match m.write_noownerchecks(hp, n_heap) {
            Ok(b) => b.fill(0x5a),
            Err(_) => return false,
        }
        true
    })
    .unwrap_or(false)
}

/// Same judgement on a VM whose memory buffers were used before (memory reuse).
fn dirty_case(seed: u64, worker: u64, idx: u64, bus: &BusOpts, rep: &mut Report) {
    let mut rng = Rng::derive(seed ^ (DIRTY_STREAM << 32), worker, idx);
    let o = scenario_opts(idx, &mut rng);
    let sc = scenario::build(&mut rng, &o);
    let mut replay = replay_record(seed, DIRTY_STREAM, worker, idx, &sc);
    replay["mode"] = json!("dirty");
    let Ok(ready) = sc.spec.ready(&sc.world, idx) else {
        rep.count("generated_tx_rejected_by_checks");
        return;
    };
    let (plain, _) = run_plain(&sc.world, ready.clone());
    let mut vm = new_vm(&sc.world);
    if !dirty(&mut vm, &mut rng) {
        rep.count("dirtying_the_memory_failed");
        return;
    }
    rep.eval();
    let mut mon = MemMon::new();
    let mut case = Report::new();
    let res = {
        let mut refs: Vec<&mut dyn StepMonitor> = vec![&mut mon];
        run_stepped_on(&sc.world, &mut vm, ready, bus, &mut refs, &mut case)
    };
    rep.count("cases_on_reused_memory");
    rep.count_n("steps_monitored_on_reused_memory", res.steps);
    if !res.truncated {
        if let Some(diff) = outcomes_equal(&plain, &res.outcome) {
            case.violation("C24|reused memory|result differs from the run on fresh memory", diff, || json!(null));
        }
    }
    for v in case.violations.iter_mut() {
        if v.replay.is_null() {
            v.replay = replay.clone();
        }
    }
    rep.merge(case);
}

pub fn run(cfg: &Cfg) -> Report {
    let bus = BusOpts { capture_mem: true, max_steps: 30_000 };
    if let Some(r) = &cfg.replay {
        let c = r.get("case").unwrap_or(r);
        if c.get("mode").and_then(|m| m.as_str()) == Some("dirty") {
            let mut rep = Report::new();
            let (seed, worker, idx) = (c["seed"].as_u64().unwrap_or(0), c["worker"].as_u64().unwrap_or(0), c["index"].as_u64().unwrap_or(0));
            dirty_case(seed, worker, idx, &bus, &mut rep);
            rep.note(format!("replayed reused-memory case seed={seed} worker={worker} index={idx}"));
            return rep;
        }
    }
    let opts = |idx: u64, rng: &mut Rng| scenario_opts(idx, rng);
    let mons = |_sc: &Scenario| -> Vec<Box<dyn StepMonitor>> { vec![Box::new(MemMon::new())] };
    let d = Drive { prop: "C24", stream: 24, quick: 16_000, thorough: 1_600_000, bus: bus.clone(), opts: &opts, monitors: &mons, after: None };
    let mut rep = drive(cfg, &d);
    if cfg.replay.is_none() {
        let total = cfg.budget(4000, 400_000);
        let per = (total / cfg.threads as u64).max(1);
        let r2 = par(cfg.threads, |w| {
            let mut r = Report::new();
            for i in 0..per {
                dirty_case(cfg.seed, w as u64, i, &bus, &mut r);
            }
            r
        });
        rep.merge(r2);
        rep.gate("steps_diffed", rep.counter("steps_diffed"), 100_000);
        rep.gate("steps_that_changed_memory", rep.counter("steps_that_changed_memory"), 10_000);
        rep.gate("valid_accesses_accepted", rep.counter("valid_accesses_accepted"), 10_000);
        rep.gate("refused_inaccessible_ranges", rep.counter("refused_inaccessible_ranges"), 500);
        rep.gate("refused_unowned_writes", rep.counter("refused_unowned_writes"), 250);
        rep.gate("refused_unowned_writes_heap-of-caller", rep.counter("refused_unowned_writes_heap-of-caller"), 10);
        rep.gate("refused_unowned_writes_caller-stack", rep.counter("refused_unowned_writes_caller-stack"), 30);
        rep.gate("writes_ending_exactly_at_sp", rep.counter("writes_ending_exactly_at_sp"), 30);
        rep.gate("writes_ending_exactly_at_prev_hp", rep.counter("writes_ending_exactly_at_prev_hp"), 100);
        rep.gate("steps_growing_the_heap", rep.counter("steps_growing_the_heap"), 500);
        rep.gate("cases_on_reused_memory", rep.counter("cases_on_reused_memory"), 500);
    }
    rep.rule = "every single-stepped instruction of generated scripts/contracts (nested calls, callee ALOC, stack shrink/regrow, accesses aimed at $ssp/$sp/$hp/saved $hp boundaries, the caller's frame, code, tx image, balance table, end of memory): (1) bytes that differ between the address views before/after the step must lie in [$ssp, max $sp) or [$hp_post, prev_hp) or the VM's own write set of the opcode (CALL frame+code, LDC code + code-size word, balance entry, TRO output, PSH*, output finalisation at program end); newly accessible bytes read zero (also on reused, dirtied VM memory); (2) operand ranges of LB/LW/LHW/LQW, SB/SW/SHW/SQW, MCL(I), MCP(I), MEQ, LOGD, RETD, S256, K256, ECK1, ECR1, ED19 from the pre registers: inaccessible or unowned => panic from the expected reason set and never completes; accessible+owned => not refused for a memory reason. (3) $zero, $one, $ssp, $sp, $fp, $hp change only through the instructions specified to move them (ALOC; CFE/CFS/PSH/POP/LDC; CALL/RET/RETD). class = (diff|access, opcode, region class, outcome)".into();
    rep.assume("flat memory model: an address is accessible iff it is below the stack's high-water mark (raw stack extent) or at/above $hp; prev_hp = caller's saved $hp read from the call frame in memory at $fp + 120, 2^26 in a script");
    rep.assume("layout of the tx image (offset of a variable output) taken from fuel-tx (`outputs_offset_at`, `Output::size`)");
    rep.note("zero-length operands at addresses <= 2^26, self-jumps under single-stepping and steps that end in a non-panic interpreter error are counted, not judged; reads between $sp and the stack's high-water mark succeed in the VM and are counted (observed_reads_between_sp_and_stack_extent)");
    rep
}
