//! C28 Execution outcomes and receipts are well formed.
//!
//! Final-state oracle over (1) the shared Group-E workload (plain run == stepped run) and
//! (2) receipt floods (plain run only) that are steered onto the receipt limit: shape of
//! the receipt list, result vs final state, receipts root (RFC 6962 over an independent
//! receipt encoding), the 65 535 limit, outputs after revert/panic, storage kept by
//! `MemoryClient`.
use super::{
    grp_e::{
        Drive,
        drive,
        replay_record,
    },
    ledger::{
        TxMoney,
        fee_charged,
        sub_asset,
    },
};
use crate::{
    Cfg,
    Report,
    Rng,
    guarded,
    hx,
    par,
    prog::Weights,
    refmodel::rfc6962,
    scenario::{
        self,
        Scenario,
        ScenarioOpts,
    },
    stepbus::{
        BusOpts,
        Step,
        StepEnd,
        StepMonitor,
    },
    world::{
        Outcome,
        World,
        run_plain,
        storage_fingerprint,
    },
};
use fuel_asm::{
    Instruction,
    PanicReason,
};
use fuel_tx::{
    Output,
    Receipt,
    ScriptExecutionResult,
    field::{
        Outputs,
        ReceiptsRoot,
    },
};
use fuel_types::{
    Address,
    AssetId,
    ContractId,
    canonical::Serialize,
};
use fuel_vm::{
    interpreter::MemoryInstance,
    memory_client::MemoryClient,
    state::ProgramState,
};
use serde_json::{
    Value,
    json,
};

pub const LIMIT: usize = 65_535;

// ---------------------------------------------------------------------------------------
// reference receipt encoding (transaction format: receipt type word, then the fields in
// order, words big-endian, 32-byte values verbatim; payload copies are not part of it)

struct E(Vec<u8>);
impl E {
    fn w(&mut self, x: u64) -> &mut Self {
        self.0.extend_from_slice(&x.to_be_bytes());
        self
    }
    fn b(&mut self, x: &[u8; 32]) -> &mut Self {
        self.0.extend_from_slice(x);
        self
    }
}

fn result_word(r: &ScriptExecutionResult) -> u64 {
    match r {
        ScriptExecutionResult::Success => 0,
        ScriptExecutionResult::Revert => 1,
        ScriptExecutionResult::Panic => 2,
        ScriptExecutionResult::GenericFailure(v) => *v,
    }
}

/// `spec_panic_word = true` encodes the panic receipt's second field as the `$ra`-style
/// word of the instruction-set specification (`reason << 56 | instruction << 24`) instead
/// of the bare instruction the repository's canonical form uses (observation only).
pub fn encode_receipt(r: &Receipt, spec_panic_word: bool) -> Vec<u8> {
    let mut e = E(Vec::with_capacity(200));
    match r {
        Receipt::Call { id, to, amount, asset_id, gas, param1, param2, pc, is } => {
            e.w(0).b(id).b(to).w(*amount).b(asset_id).w(*gas).w(*param1).w(*param2).w(*pc).w(*is);
        }
        Receipt::Return { id, val, pc, is } => {
            e.w(1).b(id).w(*val).w(*pc).w(*is);
        }
        Receipt::ReturnData { id, ptr, len, digest, pc, is, .. } => {
            e.w(2).b(id).w(*ptr).w(*len).b(digest).w(*pc).w(*is);
        }
        Receipt::Panic { id, reason, pc, is, .. } => {
            let word = if spec_panic_word {
                ((*reason.reason() as u8 as u64) << 56) | ((*reason.instruction() as u64) << 24)
            } else {
                *reason.instruction() as u64
            };
            e.w(3).b(id).w(word).w(*pc).w(*is);
        }
        Receipt::Revert { id, ra, pc, is } => {
            e.w(4).b(id).w(*ra).w(*pc).w(*is);
        }
        Receipt::Log { id, ra, rb, rc, rd, pc, is } => {
            e.w(5).b(id).w(*ra).w(*rb).w(*rc).w(*rd).w(*pc).w(*is);
        }
        Receipt::LogData { id, ra, rb, ptr, len, digest, pc, is, .. } => {
            e.w(6).b(id).w(*ra).w(*rb).w(*ptr).w(*len).b(digest).w(*pc).w(*is);
        }
        Receipt::Transfer { id, to, amount, asset_id, pc, is } => {
            e.w(7).b(id).b(to).w(*amount).b(asset_id).w(*pc).w(*is);
        }
        Receipt::TransferOut { id, to, amount, asset_id, pc, is } => {
            e.w(8).b(id).b(to).w(*amount).b(asset_id).w(*pc).w(*is);
        }
        Receipt::ScriptResult { result, gas_used } => {
            e.w(9).w(result_word(result)).w(*gas_used);
        }
        Receipt::MessageOut { sender, recipient, amount, nonce, len, digest, .. } => {
            e.w(10).b(sender).b(recipient).w(*amount).b(nonce).w(*len).b(digest);
        }
        Receipt::Mint { sub_id, contract_id, val, pc, is } => {
            e.w(11).b(sub_id).b(contract_id).w(*val).w(*pc).w(*is);
        }
        Receipt::Burn { sub_id, contract_id, val, pc, is } => {
            e.w(12).b(sub_id).b(contract_id).w(*val).w(*pc).w(*is);
        }
    }
    e.0
}

fn kind(r: &Receipt) -> &'static str {
    match r {
        Receipt::Call { .. } => "Call",
        Receipt::Return { .. } => "Return",
        Receipt::ReturnData { .. } => "ReturnData",
        Receipt::Panic { .. } => "Panic",
        Receipt::Revert { .. } => "Revert",
        Receipt::Log { .. } => "Log",
        Receipt::LogData { .. } => "LogData",
        Receipt::Transfer { .. } => "Transfer",
        Receipt::TransferOut { .. } => "TransferOut",
        Receipt::ScriptResult { .. } => "ScriptResult",
        Receipt::MessageOut { .. } => "MessageOut",
        Receipt::Mint { .. } => "Mint",
        Receipt::Burn { .. } => "Burn",
    }
}

pub fn bucket(n: usize) -> &'static str {
    match n {
        n if n > LIMIT => ">limit",
        LIMIT => "limit",
        n if n == LIMIT - 1 => "limit-1",
        n if n == LIMIT - 2 => "limit-2",
        _ => "<limit-2",
    }
}

// ---------------------------------------------------------------------------------------

/// Judge the end of one execution. `salt` is the scenario's transaction salt (needed to
/// rebuild the same transaction for the in-memory client). Returns the coverage class.
pub fn judge_final(sc: &Scenario, salt: u64, out: &Outcome, with_client: bool, replay: &Value, rep: &mut Report) -> Option<String> {
    let w: &World = &sc.world;
    let rs = &out.receipts;
    let state = match &out.state {
        Ok(s @ (ProgramState::Return(_) | ProgramState::ReturnData(_) | ProgramState::Revert(_))) => *s,
        Ok(other) => {
            rep.count("unjudged_execution_suspended");
            rep.note(format!("execution ended in debugger state {other:?}"));
            return None;
        }
        Err(e) => {
            // the execution did not complete: no script result was produced. An abort from
            // inside the VM (host panic, internal bug report) means the reserved receipt
            // slots / epilogue did not do their job
            let short = e.split(" @ ").next().unwrap_or(e);
            let short = &short[..short.len().min(90)];
            if e.starts_with("HOST PANIC") {
                let loc = e.rsplit(" @ ").next().unwrap_or("");
                let site = loc.find("fuel-").map(|i| &loc[i..]).unwrap_or(loc).to_string();
                rep.violation(
                    format!("C28|execution aborted by a host panic instead of ending with a script result|{site}"),
                    format!("{e}; {} receipts so far", rs.len()),
                    || replay.clone(),
                );
            } else if e.contains("Bug") {
                rep.violation(
                    "C28|execution aborted with an internal bug report instead of ending with a script result",
                    format!("{short}; {} receipts so far", rs.len()),
                    || replay.clone(),
                );
            } else {
                rep.count("unjudged_vm_error");
                rep.note(format!("VM error (not judged): {short}"));
            }
            return None;
        }
    };
    rep.eval();
    let n = rs.len();
    // --- shape of the list
    let results = rs.iter().filter(|r| matches!(r, Receipt::ScriptResult { .. })).count();
    let panics = rs.iter().filter(|r| matches!(r, Receipt::Panic { .. })).count();
    let last = rs.last();
    let Some(Receipt::ScriptResult { result, .. }) = last else {
        rep.violation("C28|receipts do not end with a script result", format!("{n} receipts, last {:?}", last.map(kind)), || replay.clone());
        return None;
    };
    if results != 1 {
        rep.violation("C28|more than one script result receipt", format!("{results} script results among {n} receipts"), || replay.clone());
    }
    let before_last = if n >= 2 { Some(&rs[n - 2]) } else { None };
    let preceded_by_panic = matches!(before_last, Some(Receipt::Panic { .. }));
    let is_panic_result = matches!(result, ScriptExecutionResult::Panic);
    if preceded_by_panic != is_panic_result {
        rep.violation(
            if is_panic_result { "C28|panic result not preceded by a panic receipt" } else { "C28|panic receipt precedes a non-panic result" },
            format!("result {result:?}, receipt before it {:?}", before_last.map(kind)),
            || replay.clone(),
        );
    }
    if panics > preceded_by_panic as usize {
        rep.violation("C28|panic receipt somewhere other than directly before the script result", format!("{panics} panic receipts among {n}"), || replay.clone());
    }
    // --- result vs final state
    let end: &'static str = match (state, preceded_by_panic) {
        (ProgramState::Return(v), _) => {
            if !matches!(result, ScriptExecutionResult::Success) {
                rep.violation("C28|state Return but result is not Success", format!("{result:?}"), || replay.clone());
            }
            match before_last {
                Some(Receipt::Return { id, val, .. }) if *id == ContractId::zeroed() && *val == v => {}
                other => rep.violation("C28|Success without a top-level Return receipt before the result", format!("state Return({v}), receipt {other:?}"), || replay.clone()),
            }
            "return"
        }
        (ProgramState::ReturnData(d), _) => {
            if !matches!(result, ScriptExecutionResult::Success) {
                rep.violation("C28|state ReturnData but result is not Success", format!("{result:?}"), || replay.clone());
            }
            match before_last {
                Some(Receipt::ReturnData { id, digest, .. }) if *id == ContractId::zeroed() && *digest == d => {}
                other => rep.violation("C28|Success without a top-level ReturnData receipt before the result", format!("state ReturnData({d}), receipt {other:?}"), || replay.clone()),
            }
            "returndata"
        }
        (ProgramState::Revert(v), false) => {
            if !matches!(result, ScriptExecutionResult::Revert) {
                rep.violation("C28|state Revert (no panic) but result is not Revert", format!("{result:?}"), || replay.clone());
            }
            match before_last {
                Some(Receipt::Revert { ra, .. }) if *ra == v => {}
                other => rep.violation("C28|Revert result without a Revert receipt before the result", format!("state Revert({v}), receipt {other:?}"), || replay.clone()),
            }
            "revert"
        }
        (ProgramState::Revert(v), true) => {
            if !matches!(result, ScriptExecutionResult::Panic) {
                rep.violation("C28|panicked execution but result is not Panic", format!("{result:?}"), || replay.clone());
            }
            if v != 0 {
                rep.violation("C28|panicked execution with a non-zero revert state", format!("Revert({v})"), || replay.clone());
            }
            "panic"
        }
        _ => unreachable!(),
    };
    let reverted = matches!(end, "revert" | "panic");
    // --- limit
    if n > LIMIT {
        rep.violation("C28|more than 65535 receipts", format!("{n} receipts"), || replay.clone());
    }
    for (i, r) in rs.iter().enumerate().skip(LIMIT.saturating_sub(2)) {
        let ok = match r {
            Receipt::ScriptResult { .. } => true,
            Receipt::Panic { .. } => i == LIMIT - 2,
            _ => false,
        };
        if !ok {
            rep.violation("C28|one of the last two receipt slots holds something other than panic / script result", format!("slot {i}: {}", kind(r)), || replay.clone());
        }
    }
    let mut too_many_by: Option<String> = None;
    if let Some(Receipt::Panic { reason, id, .. }) = before_last {
        if *reason.reason() == PanicReason::TooManyReceipts {
            let op = Instruction::try_from(reason.instruction().to_be_bytes()).map(|i| format!("{:?}", i.opcode())).unwrap_or("?".into());
            too_many_by = Some(format!("{op}@{}", if *id == ContractId::zeroed() { "script" } else { "contract" }));
            rep.count("too_many_receipts_panics");
            if n != LIMIT {
                rep.violation("C28|TooManyReceipts raised although the rejected receipt was not in the last two slots", format!("{n} receipts at the end, rejected instruction {op}"), || replay.clone());
            }
        }
    }
    // --- receipts root
    let enc: Vec<Vec<u8>> = rs.iter().map(|r| encode_receipt(r, false)).collect();
    let mut impl_differs = 0u64;
    for (r, e) in rs.iter().zip(enc.iter()) {
        if r.to_bytes() != *e {
            impl_differs += 1;
            if impl_differs == 1 {
                rep.note(format!("observation: Receipt::to_bytes differs from the reference encoding for a {} receipt: impl {} reference {}", kind(r), hx(r.to_bytes()), hx(e)));
            }
        }
    }
    if impl_differs > 0 {
        rep.count_n("observation_receipt_to_bytes_differs_from_reference", impl_differs);
    }
    let want_root = rfc6962::mth(&enc);
    let got_root = *out.tx.receipts_root();
    rep.count("receipt_roots_checked");
    if got_root.as_slice() != &want_root[..] {
        // diagnose the most likely shapes for the description (the signature stays general)
        let without_result = rfc6962::mth(&enc[..n - 1]);
        let hint = if got_root.as_slice() == &without_result[..] { " (it is the root of the list without the script result)" } else { "" };
        rep.violation("C28|receipts root of the output transaction differs from the Merkle root of the encoded receipts", format!("{n} receipts: field {got_root}, reference {}{hint}", hx(want_root)), || replay.clone());
    }
    if preceded_by_panic && got_root.as_slice() == &want_root[..] {
        // observation only: the leaf of the panic receipt under the specification's
        // `reason << 56 | instruction << 24` word is a different byte string, i.e. the
        // committed root does not depend on the panic reason
        if encode_receipt(&rs[n - 2], true) != enc[n - 2] {
            rep.count("observation_root_does_not_commit_to_panic_reason");
        }
    }
    // --- outputs after revert / panic
    let money = TxMoney::of(&sc.spec, w);
    let gas_used = match last {
        Some(Receipt::ScriptResult { gas_used, .. }) => *gas_used,
        _ => 0,
    };
    if reverted {
        let fee = fee_charged(&out.tx, w, money.tip, gas_used);
        match (money.initial_free(false), money.max_fee.checked_sub(fee)) {
            (Some(init), Some(refund)) => {
                for (i, o) in out.tx.outputs().iter().enumerate() {
                    match o {
                        Output::Variable { to, amount, asset_id } => {
                            rep.count("reverted_variable_outputs_checked");
                            if *amount != 0 {
                                rep.violation("C28|variable output keeps an amount after revert/panic", format!("output {i}: {o:?} (end {end})"), || replay.clone());
                            } else if *to != Address::zeroed() || *asset_id != AssetId::zeroed() {
                                rep.count("observation_reverted_variable_output_keeps_recipient_or_asset");
                            }
                        }
                        Output::Change { amount, asset_id, .. } => {
                            rep.count("reverted_change_outputs_checked");
                            let is_base = *asset_id == money.base;
                            let want = init.get(asset_id).copied().unwrap_or(0) + if is_base { refund } else { 0 };
                            if *amount as u128 != want {
                                rep.violation(
                                    format!("C28|change output after revert/panic differs from the initial free balance{}", if is_base { " plus refund (base asset)" } else { "" }),
                                    format!("output {i}: amount {amount}, expected {want} (initial {} refund {refund}, gas used {gas_used}, gas price {}, end {end})", init.get(asset_id).copied().unwrap_or(0), w.gas_price),
                                    || replay.clone(),
                                );
                            }
                        }
                        _ => {}
                    }
                }
            }
            _ => rep.count("unjudged_outputs_spec_or_fee_not_computable"),
        }
    }
    // --- what a client keeps
    if with_client {
        client_check(sc, salt, out, reverted, end, replay, rep);
    }
    let class = format!("end={end}|receipts={}", bucket(n));
    rep.class(class.clone());
    rep.count(&format!("judged_{end}"));
    if let Some(by) = too_many_by {
        rep.count(&format!("limit_hit_by_{by}"));
        rep.class(format!("end=panic|receipts={}|TooManyReceipts by {by}", bucket(n)));
    }
    Some(class)
}

fn client_check(sc: &Scenario, salt: u64, out: &Outcome, reverted: bool, end: &str, replay: &Value, rep: &mut Report) {
    let w = &sc.world;
    let Ok(checked) = sc.spec.checked(w, salt) else {
        rep.count("unjudged_client_tx_rejected");
        return;
    };
    // asset ids minted during the run would reveal a leaked mint
    let extra: Vec<AssetId> = out
        .receipts
        .iter()
        .filter_map(|r| match r {
            Receipt::Mint { sub_id, contract_id, .. } | Receipt::Burn { sub_id, contract_id, .. } => Some(sub_asset(contract_id, sub_id)),
            Receipt::Transfer { asset_id, .. } | Receipt::Call { asset_id, .. } => Some(*asset_id),
            _ => None,
        })
        .collect();
    let before = storage_fingerprint(w, &w.storage, &extra);
    let mut client: MemoryClient<MemoryInstance> = MemoryClient::new(MemoryInstance::new(), w.storage.clone(), w.interpreter_params());
    let receipts = match guarded(|| client.transact(checked).to_vec()) {
        Ok(r) => r,
        Err(p) => {
            rep.count("unjudged_client_host_panic");
            rep.note(format!("MemoryClient::transact panicked: {}", p.text));
            return;
        }
    };
    if receipts != out.receipts {
        rep.count("unjudged_client_receipts_differ_from_interpreter_run");
        return;
    }
    let after = storage_fingerprint(w, client.as_ref(), &extra);
    rep.count("client_runs_checked");
    if reverted {
        rep.count("client_storage_checked_after_revert");
        if after != before {
            rep.violation("C28|MemoryClient storage changed by a reverted/panicked execution", format!("fingerprint {} -> {} (end {end})", hx(before), hx(after)), || replay.clone());
        }
    } else {
        // not part of the statement: did the client keep what the execution did?
        let vm_changed = out.storage_fp != storage_fingerprint(w, &w.storage, &[]);
        let client_changed = after != before;
        rep.count(if client_changed { "success_storage_changed" } else { "success_storage_unchanged" });
        if vm_changed != client_changed {
            rep.count("observation_success_client_storage_change_differs_from_interpreter");
            rep.note("observation: after a successful execution the client's storage changed-or-not differently from the interpreter's uncommitted state");
        }
    }
}

// ---------------------------------------------------------------------------------------
// cheap per-step invariant on the bus: the receipt list only grows, never beyond the
// limit, and panic / script-result receipts appear only in the terminal step

struct Growth;

impl StepMonitor for Growth {
    fn on_step(&mut self, _w: &World, s: &Step, rep: &mut Report) {
        if s.post.receipts_len < s.pre.receipts_len {
            rep.violation("C28|receipt list shrank during execution", format!("{} -> {} at step {}", s.pre.receipts_len, s.post.receipts_len, s.index), || json!(null));
        }
        if s.post.receipts_len > LIMIT {
            rep.violation("C28|more than 65535 receipts", format!("{} receipts at step {}", s.post.receipts_len, s.index), || json!(null));
        }
        if matches!(s.end, StepEnd::Continue) {
            for r in s.new_receipts {
                if matches!(r, Receipt::Panic { .. } | Receipt::ScriptResult { .. }) {
                    rep.violation("C28|panic or script-result receipt although the execution continues", format!("{} at step {}", kind(r), s.index), || json!(null));
                }
            }
        }
        rep.count("steps_receipt_growth_checked");
    }
}

// ---------------------------------------------------------------------------------------
// receipt floods

const FLOOD_STREAM: u64 = 0x28f;

fn flood_opts(place_sel: u64, rng: &mut Rng, flood_n: u32) -> (ScenarioOpts, &'static str) {
    let mut ws = Weights::default();
    ws.hostile = 3;
    ws.garbage = 0;
    ws.flow = 2;
    ws.log = 3;
    let mut wc = ws.clone();
    // where the flood lives: 0 script, 1 callee, 2 both
    let place = match place_sel % 3 {
        0 => "script",
        1 => "callee",
        _ => "both",
    };
    if place != "callee" {
        ws.flood = 1000;
        ws.flood_n = flood_n;
    }
    if place != "script" {
        wc.flood = 700;
        wc.flood_n = flood_n;
        ws.call = 40;
    }
    wc.call = 2;
    let gas_price = if rng.chance(1, 3) { 1 + rng.below(2_000_000) } else { 0 };
    let o = ScenarioOpts {
        weights: ws,
        contract_weights: wc,
        // never the free schedule: floods run without a step cap and only gas ends a wild loop
        schedule: (rng.below(4) == 0) as u8,
        gas_price,
        max_contracts: if place == "script" { 1 } else { 2 },
        script_snippets: 5,
        contract_snippets: 4,
        tight_gas: 0,
        ..Default::default()
    };
    (o, place)
}

fn flood_run(seed: u64, worker: u64, idx: u64, place_sel: u64, flood_n: u32) -> (Scenario, Value, &'static str) {
    let mut rng = Rng::derive(seed ^ (FLOOD_STREAM << 32), worker, idx);
    let (o, place) = flood_opts(place_sel, &mut rng, flood_n);
    let mut sc = scenario::build(&mut rng, &o);
    sc.spec.gas_limit = 4_000_000;
    let mut replay = replay_record(seed, FLOOD_STREAM, worker, idx, &sc);
    replay["mode"] = json!("flood");
    replay["flood_n"] = json!(flood_n);
    replay["place"] = json!(place_sel);
    (sc, replay, place)
}

const N0: u32 = 1500;

/// one judged flood run; returns (receipt count, TooManyReceipts seen)
fn flood_exec(seed: u64, worker: u64, idx: u64, place_sel: u64, n: u32, with_client: bool, steered: bool, rep: &mut Report) -> Option<(usize, bool)> {
    let (sc, replay, place) = flood_run(seed, worker, idx, place_sel, n);
    let ready = match sc.spec.ready(&sc.world, idx) {
        Ok(r) => r,
        Err(_) => {
            rep.count("generated_tx_rejected_by_checks");
            return None;
        }
    };
    let (out, _vm) = run_plain(&sc.world, ready);
    rep.count("flood_runs");
    let hit = out.receipts.iter().any(|r| matches!(r, Receipt::Panic { reason, .. } if *reason.reason() == PanicReason::TooManyReceipts));
    let class = judge_final(&sc, idx, &out, with_client, &replay, rep);
    if let Some(c) = &class {
        rep.class(format!("flood|{c}"));
        if steered {
            rep.count(&format!("flood_place_{place}"));
            rep.count(&format!("flood_{}", bucket(out.receipts.len())));
            if out.receipts.len() >= LIMIT - 2 && worker < 4 {
                rep.sample(|| json!({"mode": "flood", "place": place, "flood_n": n, "receipts": out.receipts.len(), "end": c, "last_receipts": out.receipts.iter().rev().take(3).map(|r| format!("{r:?}")).collect::<Vec<_>>(), "case": replay}));
            }
        }
    }
    Some((out.receipts.len(), hit))
}

/// one flood experiment: two cheap probing runs (trip counts `N0`, `N0 + 1`) measure how
/// many receipts the program produces besides the flood and how many one more iteration
/// adds (> 1 when the flooding callee is called several times); then one run whose trip
/// count is steered so that the total lands on a chosen count around the limit. Scenarios
/// whose flood is not reached (no call to the flooding contract, early panic) are replaced
/// by the next sub-index, up to 6 times. All runs are judged; classes are measured on what
/// actually happened.
fn flood_case(seed: u64, worker: u64, case: u64, rep: &mut Report) {
    let place_sel = (case + worker) % 3;
    for attempt in 0..6u64 {
        let idx = case * 8 + attempt;
        let (Some((c0, hit0)), Some((c1, hit1))) =
            (flood_exec(seed, worker, idx, place_sel, N0, true, false, rep), flood_exec(seed, worker, idx, place_sel, N0 + 1, true, false, rep))
        else {
            continue;
        };
        if hit0 || hit1 || c1 <= c0 {
            // the flood was not reached (or not completed): nothing to steer
            rep.count("flood_probe_not_reached");
            continue;
        }
        let per_iteration = (c1 - c0) as i64;
        rep.count(if per_iteration == 1 { "flood_probe_one_receipt_per_iteration" } else { "flood_probe_several_receipts_per_iteration" });
        // target totals as if linear: below, on, and beyond each boundary
        let mut rng = Rng::derive(seed ^ (FLOOD_STREAM << 32) ^ 0x7a, worker, idx);
        let target: i64 = match (case * 5 + worker * 3) % 8 {
            0 => LIMIT as i64 - 3,
            1 | 2 => LIMIT as i64 - 2,
            3 | 4 => LIMIT as i64 - 1,
            5 => LIMIT as i64,
            6 => LIMIT as i64 + 1,
            _ => LIMIT as i64 + 2 + rng.below(3000) as i64,
        };
        let need = target - c0 as i64;
        let n1 = N0 as i64 + (need + per_iteration - 1) / per_iteration;
        if n1 < 1 || n1 > 0x3ffff {
            rep.count("flood_steering_out_of_range");
            continue;
        }
        rep.count("flood_steered_runs");
        // the in-memory client doubles the cost of a full flood: every third case
        flood_exec(seed, worker, idx, place_sel, n1 as u32, (case + worker / 3) % 3 == 0, true, rep);
        return;
    }
    rep.count("flood_cases_without_a_reachable_flood");
}

pub fn opts(idx: u64, rng: &mut Rng) -> ScenarioOpts {
    let mut w = Weights::default();
    w.call = 12;
    w.money = 10;
    w.log = 8;
    w.hostile = match idx % 4 {
        0 => 100,
        1 => 40,
        _ => 15,
    };
    let gas_price = if idx % 3 == 0 {
        match rng.below(4) {
            0 => 1,
            1 => 1_000,
            2 => 1_000_000,
            _ => 1 + rng.below(3_000_000),
        }
    } else {
        0
    };
    ScenarioOpts {
        weights: w.clone(),
        contract_weights: w,
        // (non-default schedules rely on the EPAR allocation fix, /repo ca34e88: before it one
        // EPAR with a large element count reached through raw words aborted the process)
        schedule: match idx % 8 {
            3 => 1,
            5 => 3,
            _ => 0,
        },
        gas_price,
        tight_gas: 200,
        // non-standard parameters (random non-zero base asset id, chain id, max_inputs) in
        // half of the priced cases and a fifth of the others: change/refund of the
        // configured base asset, not of AssetId::BASE
        vary_params: if idx % 6 == 0 || idx % 5 == 2 { 1000 } else { 0 },
        // transactions without any base asset input (fee limit 0), often with a base-asset
        // change output all the same
        no_base_input: if idx % 7 == 1 { 1000 } else { 0 },
        ..Default::default()
    }
}

pub fn run(cfg: &Cfg) -> Report {
    // replay of a flood case
    if let Some(r) = &cfg.replay {
        let c = r.get("case").unwrap_or(r);
        if c.get("mode").and_then(|m| m.as_str()) == Some("flood") {
            let mut rep = Report::new();
            let (seed, worker, idx) = (c["seed"].as_u64().unwrap_or(0), c["worker"].as_u64().unwrap_or(0), c["index"].as_u64().unwrap_or(0));
            let n = c["flood_n"].as_u64().unwrap_or(N0 as u64) as u32;
            let place = c["place"].as_u64().unwrap_or(0);
            flood_exec(seed, worker, idx, place, n, true, true, &mut rep);
            rep.note(format!("replayed flood case seed={seed} worker={worker} index={idx} flood_n={n}"));
            return rep;
        }
    }
    let mons = |_sc: &Scenario| -> Vec<Box<dyn StepMonitor>> { vec![Box::new(Growth)] };
    let after = |sc: &Scenario, plain: &Outcome, _stepped: &Outcome, replay: &Value, rep: &mut Report| {
        let salt = replay["index"].as_u64().unwrap_or(0);
        judge_final(sc, salt, plain, true, replay, rep);
    };
    let d = Drive { prop: "C28", stream: 28, quick: 8_000, thorough: 1_000_000, bus: BusOpts { capture_mem: false, max_steps: 20_000 }, opts: &opts, monitors: &mons, after: Some(&after) };
    let mut rep = drive(cfg, &d);
    if cfg.replay.is_none() {
        let total = cfg.budget(48, 4800);
        let per = (total / cfg.threads as u64).max(1);
        let r2 = par(cfg.threads, |w| {
            let mut r = Report::new();
            for i in 0..per {
                flood_case(cfg.seed, w as u64, i, &mut r);
            }
            r
        });
        rep.merge(r2);
        // requirements shrink with --scale < 1; the boundary gates need the full flood budget
        let f = cfg.scale.min(1.0);
        let req = |n: u64| ((n as f64 * f) as u64).max(1);
        rep.gate("receipt_roots_checked", rep.counter("receipt_roots_checked"), req(500));
        rep.gate("client_storage_checked_after_revert", rep.counter("client_storage_checked_after_revert"), req(200));
        rep.gate("flood_runs", rep.counter("flood_runs"), req(48));
        if total >= 48 {
            rep.gate("flood_steered_runs", rep.counter("flood_steered_runs"), 8);
            rep.gate("too_many_receipts_panics", rep.counter("too_many_receipts_panics"), 1);
            for b in ["limit-2", "limit-1", "limit"] {
                rep.gate(&format!("flood_{b}"), rep.counter(&format!("flood_{b}")), 1);
            }
        }
    }
    rep.rule = "final state of every completed execution (shared workload: plain run that equals the stepped run; floods: plain run of programs with a counted LOG/LOGD loop in the script and/or a callee, first probed below the limit and then steered onto totals around 65535): exactly one ScriptResult, last; Panic receipt directly before it iff result Panic, nowhere else; Success iff state Return/ReturnData with the matching top-level Return(Data) receipt, Revert iff state Revert with the Revert receipt, Panic iff panic receipt and Revert(0); receipts_root field = RFC 6962 root over an independent receipt encoding; <= 65535 receipts, last two slots only Panic/ScriptResult, TooManyReceipts only when the rejected receipt would occupy one of them; an execution must not abort with a host panic / internal bug; after revert/panic: variable outputs have amount 0, change outputs = initial free balance from the tx specification (+ max_fee - fee for the base asset), MemoryClient storage fingerprint unchanged. class = (end state, receipt-count bucket)".into();
    rep.assume("Chargeable::min_gas of the repository is used for the intrinsic gas in the refund (fee arithmetic is C18's subject)");
    rep.assume("storage fingerprint = contract state, balances of known contracts x (known + named/minted assets), contract code, and the Debug rendering of the MemoryStorage (all layers)");
    rep.note("reference encoding of a Panic receipt follows the repository's canonical form (id, bare instruction as a word, pc, is); under the instruction-set specification's `reason << 56 | instruction << 24` word the leaf would be a different byte string: counted as observation_root_does_not_commit_to_panic_reason whenever the committed root matches the canonical form");
    rep.note("variable outputs after revert/panic: amount 0 is judged; a remaining recipient/asset id is counted as an observation (an amount of zero makes the output unspendable)");
    rep
}
