//! Scheduling machinery for C20: a `ParallelExecutor` that really runs every predicate task
//! of a call on its own OS thread (in parallel) and hands the completions to the caller through a turnstile in a chosen
//! permutation (threads finish in whatever order the OS schedules them; the turnstile
//! reorders what the library gets to see), a `VmMemoryPool` that hands out dirty, previously used memory instances, a
//! `PredicateStorageProvider` over a cloneable storage and a tiny `block_on`.
//!
//! `ParallelExecutor` has only associated functions (no `self`), therefore the schedule of
//! the next `execute_tasks` call is taken from a thread local of the calling thread (the
//! future is polled by `block_on` on the thread that created it).
use crate::Rng;
use fuel_types::Word;
use fuel_vm::{
    checked_transaction::ParallelExecutor,
    constraints::reg_key::{
        HP,
        Reg,
        RegMut,
        SP,
    },
    error::PredicateVerificationFailed,
    interpreter::MemoryInstance,
    pool::VmMemoryPool,
    storage::{
        MemoryStorage,
        predicate::PredicateStorageProvider,
    },
};
use std::{
    cell::RefCell,
    future::Future,
    panic::{
        AssertUnwindSafe,
        catch_unwind,
    },
    pin::Pin,
    sync::{
        Arc,
        Mutex,
        atomic::{
            AtomicU64,
            Ordering,
        },
    },
    task::{
        Context,
        Poll,
        Wake,
        Waker,
    },
    time::Duration,
};

pub type TaskOut = (usize, Result<Word, PredicateVerificationFailed>);

/// Completion schedule of the next `execute_tasks` call on this thread.
#[derive(Clone, Debug, PartialEq, Eq)]
pub enum Sched {
    /// completions released in task order
    Identity,
    /// completions released in reverse task order
    Reverse,
    /// completions released in the permutation drawn from this seed
    Seeded(u64),
    /// no turnstile: every task sleeps a seed-chosen number of microseconds before it
    /// runs, completions are collected in the order in which the threads really finish
    Sleep(u64),
}

impl Sched {
    pub fn kind(&self) -> &'static str {
        match self {
            Sched::Identity => "identity",
            Sched::Reverse => "reverse",
            Sched::Seeded(_) => "seeded",
            Sched::Sleep(_) => "sleep",
        }
    }

    /// `order[k]` = position of the task whose completion is released k-th
    pub fn order(&self, n: usize) -> Option<Vec<usize>> {
        match self {
            Sched::Identity => Some((0..n).collect()),
            Sched::Reverse => Some((0..n).rev().collect()),
            Sched::Seeded(x) => {
                let mut v: Vec<usize> = (0..n).collect();
                Rng::new(*x).shuffle(&mut v);
                Some(v)
            }
            Sched::Sleep(_) => None,
        }
    }
}

thread_local! {
    static SCHED: RefCell<Sched> = const { RefCell::new(Sched::Identity) };
    /// completion orders realised by `execute_tasks` calls on this thread
    static OBSERVED: RefCell<Vec<Vec<usize>>> = const { RefCell::new(Vec::new()) };
}

pub fn set_sched(s: Sched) {
    SCHED.with(|c| *c.borrow_mut() = s);
}

pub fn take_observed() -> Vec<Vec<usize>> {
    OBSERVED.with(|c| std::mem::take(&mut *c.borrow_mut()))
}

/// A lazily started CPU-heavy task. Polling it directly runs it inline (not used by
/// `execute_tasks`, which moves every task to its own thread).
pub struct Task(Option<Box<dyn FnOnce() -> TaskOut + Send + 'static>>);

impl Future for Task {
    type Output = TaskOut;

    fn poll(self: Pin<&mut Self>, _cx: &mut Context<'_>) -> Poll<TaskOut> {
        let f = self.get_mut().0.take().expect("task polled after completion");
        Poll::Ready(f())
    }
}

struct TsState {
    out: Vec<(usize, Option<TaskOut>)>,
    waker: Option<Waker>,
    panics: Vec<String>,
}

struct Turnstile {
    m: Mutex<TsState>,
}

struct WaitAll {
    st: Arc<Turnstile>,
    n: usize,
}

impl Future for WaitAll {
    type Output = ();

    fn poll(self: Pin<&mut Self>, cx: &mut Context<'_>) -> Poll<()> {
        let mut g = self.st.m.lock().expect("turnstile lock");
        if g.out.len() == self.n {
            Poll::Ready(())
        } else {
            g.waker = Some(cx.waker().clone());
            Poll::Pending
        }
    }
}

fn payload(e: &Box<dyn std::any::Any + Send>) -> String {
    if let Some(s) = e.downcast_ref::<&str>() {
        s.to_string()
    } else if let Some(s) = e.downcast_ref::<String>() {
        s.clone()
    } else {
        "<non-string panic>".into()
    }
}

type Job = Box<dyn FnOnce() + Send + 'static>;

thread_local! {
    /// OS threads owned by the calling (worker) thread: task number `i` of an
    /// `execute_tasks` call runs on thread `i`, so the tasks of one call run on distinct
    /// threads in parallel. The threads live as long as the worker (creating and
    /// destroying ~10^5 threads per run costs more kernel time than the predicates).
    static THREADS: RefCell<Vec<std::sync::mpsc::Sender<Job>>> = const { RefCell::new(Vec::new()) };
}

fn dispatch(i: usize, job: Job) {
    THREADS.with(|t| {
        let mut t = t.borrow_mut();
        while t.len() <= i {
            let (tx, rx) = std::sync::mpsc::channel::<Job>();
            std::thread::Builder::new()
                .stack_size(8 << 20)
                .spawn(move || {
                    while let Ok(j) = rx.recv() {
                        j();
                    }
                })
                .expect("spawn predicate task thread");
            t.push(tx);
        }
        t[i].send(job).expect("predicate task thread alive");
    })
}

pub struct TurnstileExec;

// `ParallelExecutor` is declared through `#[async_trait]`; the impl below is the
// hand-written form of what the macro generates (the harness does not depend on the
// async-trait crate).
impl ParallelExecutor for TurnstileExec {
    type Task = Task;

    fn create_task<F>(func: F) -> Task
    where
        F: FnOnce() -> TaskOut + Send + 'static,
    {
        Task(Some(Box::new(func)))
    }

    fn execute_tasks<'async_trait>(futures: Vec<Task>) -> Pin<Box<dyn Future<Output = Vec<TaskOut>> + Send + 'async_trait>> {
        let sched = SCHED.with(|s| s.borrow().clone());
        Box::pin(async move {
            let n = futures.len();
            let order = sched.order(n);
            let st = Arc::new(Turnstile { m: Mutex::new(TsState { out: Vec::with_capacity(n), waker: None, panics: vec![] }) });
            for (pos, mut task) in futures.into_iter().enumerate() {
                let st = st.clone();
                let sleep_us = match &sched {
                    Sched::Sleep(x) => Some(Rng::derive(*x, pos as u64, 7).below(300)),
                    _ => None,
                };
                let f = task.0.take().expect("fresh task");
                dispatch(
                    pos,
                    Box::new(move || {
                        if let Some(us) = sleep_us {
                            std::thread::sleep(Duration::from_micros(us));
                        }
                        // `f` owns the task's memory instance: it is dropped (returned to
                        // the pool) before the completion is published
                        let r = catch_unwind(AssertUnwindSafe(f));
                        let mut g = st.m.lock().expect("turnstile lock");
                        match r {
                            Ok(v) => g.out.push((pos, Some(v))),
                            Err(e) => {
                                g.panics.push(payload(&e));
                                g.out.push((pos, None));
                            }
                        }
                        let w = if g.out.len() == n { g.waker.take() } else { None };
                        drop(g);
                        if let Some(w) = w {
                            w.wake();
                        }
                    }),
                );
            }
            WaitAll { st: st.clone(), n }.await;
            let (mut out, panics) = {
                let mut g = st.m.lock().expect("turnstile lock");
                (std::mem::take(&mut g.out), std::mem::take(&mut g.panics))
            };
            // the turnstile: whatever order the threads really finished in, their
            // completions are released to the caller in the scheduled permutation
            if let Some(order) = &order {
                out.sort_by_key(|(pos, _)| order.iter().position(|p| p == pos).expect("permutation"));
            }
            if let Some(p) = panics.first() {
                panic!("predicate task panicked: {p}");
            }
            OBSERVED.with(|o| o.borrow_mut().push(out.iter().map(|x| x.0).collect()));
            out.into_iter().map(|(_, r)| r.expect("no panic")).collect()
        })
    }
}

struct ThreadWaker(std::thread::Thread);

impl Wake for ThreadWaker {
    fn wake(self: Arc<Self>) {
        self.0.unpark();
    }
}

/// Minimal single-future executor: poll, park until woken (or a short timeout), repeat.
pub fn block_on<F: Future>(f: F) -> F::Output {
    let mut f = Box::pin(f);
    let w = Waker::from(Arc::new(ThreadWaker(std::thread::current())));
    let mut cx = Context::from_waker(&w);
    loop {
        match f.as_mut().poll(&mut cx) {
            Poll::Ready(v) => return v,
            Poll::Pending => std::thread::park_timeout(Duration::from_millis(2)),
        }
    }
}

/// A memory instance that goes back (dirty) to its pool when dropped.
pub struct PooledMem {
    mem: Option<MemoryInstance>,
    home: Arc<Mutex<Vec<MemoryInstance>>>,
}

impl AsRef<MemoryInstance> for PooledMem {
    fn as_ref(&self) -> &MemoryInstance {
        self.mem.as_ref().expect("live")
    }
}

impl AsMut<MemoryInstance> for PooledMem {
    fn as_mut(&mut self) -> &mut MemoryInstance {
        self.mem.as_mut().expect("live")
    }
}

impl Drop for PooledMem {
    fn drop(&mut self) {
        if let (Some(m), Ok(mut g)) = (self.mem.take(), self.home.lock()) {
            if g.len() < 32 {
                g.push(m);
            }
        }
    }
}

/// Pool whose instances are never clean: a new one is filled with a byte pattern on stack
/// and heap, a returned one keeps whatever the last predicate left in it.
#[derive(Clone)]
pub struct DirtyPool {
    free: Arc<Mutex<Vec<MemoryInstance>>>,
    pub handed: Arc<AtomicU64>,
    pub reused: Arc<AtomicU64>,
}

fn fresh_dirty() -> MemoryInstance {
    let mut m = MemoryInstance::new();
    let sp: Word = 24 * 1024;
    m.grow_stack(sp).expect("grow stack");
    m.write_noownerchecks(0u64, sp).expect("stack range").fill(0xA5);
    let mut hp: Word = fuel_vm::consts::VM_MAX_RAM;
    m.grow_heap_by(Reg::<SP>::new(&sp), RegMut::<HP>::new(&mut hp), 8192).expect("grow heap");
    m.write_noownerchecks(hp, 8192u64).expect("heap range").fill(0x5A);
    m
}

impl DirtyPool {
    pub fn new() -> Self {
        Self { free: Arc::new(Mutex::new(vec![])), handed: Arc::new(AtomicU64::new(0)), reused: Arc::new(AtomicU64::new(0)) }
    }

    pub fn take(&self) -> PooledMem {
        self.handed.fetch_add(1, Ordering::Relaxed);
        let old = self.free.lock().expect("pool lock").pop();
        let mem = match old {
            Some(m) => {
                self.reused.fetch_add(1, Ordering::Relaxed);
                m
            }
            None => fresh_dirty(),
        };
        PooledMem { mem: Some(mem), home: self.free.clone() }
    }
}

impl Default for DirtyPool {
    fn default() -> Self {
        Self::new()
    }
}

/// Future that is pending exactly once (so that `get_new().await` really suspends).
pub struct YieldOnce<T>(Option<T>, bool);

impl<T: Unpin> Future for YieldOnce<T> {
    type Output = T;

    fn poll(self: Pin<&mut Self>, cx: &mut Context<'_>) -> Poll<T> {
        let s = self.get_mut();
        if !s.1 {
            s.1 = true;
            cx.waker().wake_by_ref();
            Poll::Pending
        } else {
            Poll::Ready(s.0.take().expect("polled after completion"))
        }
    }
}

impl VmMemoryPool for DirtyPool {
    type Memory = PooledMem;

    fn get_new(&self) -> impl Future<Output = PooledMem> + Send {
        YieldOnce(Some(self.take()), false)
    }
}

/// Storage provider over a cloneable storage: every predicate task gets its own clone.
pub struct Provider(pub MemoryStorage);

impl PredicateStorageProvider for Provider {
    type Storage = MemoryStorage;

    fn storage(&self) -> MemoryStorage {
        self.0.clone()
    }
}
