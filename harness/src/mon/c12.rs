//! C12 Sparse Merkle root depends only on the final key-value map.
//!
//! Every history is executed on the storage-backed `sparse::MerkleTree` (over a
//! `SharedMap`) and on `sparse::in_memory::MerkleTree`; after every operation both roots
//! must equal the compact sparse Merkle root of the model map (`refmodel::smt`). At the
//! end `from_set` (both flavours), `root_from_set` and `nodes_from_set` over a shuffled
//! list with duplicate keys (the last occurrence wins, as a `BTreeMap` collect does) must
//! give the same root.

use super::smt_gen::{
    self as g,
    Key,
    Model,
    Op,
    OpKind,
    Outcome,
    Store,
    Tree,
};
use crate::{
    Cfg,
    Report,
    Rng,
    bucket,
    guarded,
    hx,
    par,
    refmodel::smt,
    unhx,
};
use fuel_merkle::sparse::in_memory::MerkleTree as MemTree;
use serde_json::{
    Value,
    json,
};
use std::collections::{
    BTreeMap,
    BTreeSet,
};

const STOR: &str = "sparse::MerkleTree(storage)";
const MEM: &str = "sparse::in_memory::MerkleTree";

pub struct Case {
    pub ops: Vec<Op>,
    /// input of the `*_from_set` calls (may contain duplicate keys; last wins)
    pub set_input: Vec<(Key, Vec<u8>)>,
}

impl Case {
    fn to_json(&self, upto: usize) -> Value {
        json!({
            "ops": g::ops_json(&self.ops[..upto.min(self.ops.len())]),
            "set_input": self.set_input.iter().map(|(k, v)| json!([hx(k), hx(v)])).collect::<Vec<_>>(),
        })
    }
    fn from_json(v: &Value) -> Case {
        let ops = g::ops_from_json(&v["ops"]);
        let set_input = v["set_input"]
            .as_array()
            .map(|a| {
                a.iter()
                    .filter_map(|e| {
                        let k = g::key_from_hex(e.get(0)?.as_str()?)?;
                        Some((k, unhx(e.get(1)?.as_str()?)))
                    })
                    .collect()
            })
            .unwrap_or_default();
        Case { ops, set_input }
    }
}

/// `*_from_set` input for the final map: shuffled, with duplicate keys whose *last*
/// occurrence carries the model's value.
fn set_input_for(rng: &mut Rng, ops: &[Op]) -> Vec<(Key, Vec<u8>)> {
    let mut m = Model::new();
    for op in ops {
        m.apply(op);
    }
    let mut v = m.pairs();
    rng.shuffle(&mut v);
    if !v.is_empty() && rng.chance(2, 3) {
        let dups = rng.range(1, 3);
        for _ in 0..dups {
            let (k, _) = v[rng.usize_below(v.len())].clone();
            let first = v.iter().position(|(kk, _)| *kk == k).unwrap();
            let stale = match rng.below(3) {
                0 => vec![],
                1 => v[first].1.clone(),
                _ => g::gen_value(rng),
            };
            // a stale entry anywhere *before* the first occurrence: the later one wins
            let at = rng.usize_below(first + 1);
            v.insert(at, (k, stale));
        }
    }
    if !v.is_empty() && rng.chance(1, 4) {
        // heavy repetition: every key several times, the list well beyond the lengths at
        // which sorting routines switch strategy (a sort that does not keep equal keys in
        // input order must not decide which value wins)
        let target = 40 + rng.usize_below(160);
        while v.len() < target {
            let (k, _) = v[rng.usize_below(v.len())].clone();
            let first = v.iter().position(|(kk, _)| *kk == k).unwrap();
            let stale = if rng.bool() { g::gen_value(rng) } else { vec![rng.u8()] };
            let last = v.iter().rposition(|(kk, _)| *kk == k).unwrap();
            // anywhere before the last occurrence (which carries the model's value)
            let at = rng.usize_below(last.max(first) + 1);
            v.insert(at, (k, stale));
        }
    }
    v
}

fn gen_case(rng: &mut Rng) -> Case {
    let u = g::gen_universe(rng);
    let ops = g::gen_history(rng, &u);
    let set_input = set_input_for(rng, &ops);
    Case { ops, set_input }
}

fn mix_string(kinds: &BTreeSet<OpKind>, empty_value: bool) -> String {
    let mut s: Vec<&str> = kinds
        .iter()
        .map(|k| match k {
            OpKind::InsNew => "I",
            OpKind::Overwrite => "W",
            OpKind::OverwriteSame => "S",
            OpKind::DelPresent => "D",
            OpKind::DelAbsent => "A",
        })
        .collect();
    if empty_value {
        s.push("E");
    }
    s.concat()
}

fn run_case(rep: &mut Report, case: &Case) {
    rep.eval();
    let mut model = Model::new();
    let mut stor: Tree = Tree::new(Store::new());
    let mut mem = MemTree::new();
    let mut kinds = BTreeSet::new();
    let mut empty_value = false;
    let mut emptied = false;
    let mut inserted: BTreeSet<Key> = BTreeSet::new();
    let mut broken = false;

    'ops: for (i, op) in case.ops.iter().enumerate() {
        let kind = model.apply(op);
        kinds.insert(kind);
        rep.count(&format!("op_{}", kind.name()));
        if let Op::Ins(k, v) = op {
            inserted.insert(*k);
            if v.is_empty() {
                empty_value = true;
                rep.count("insert_empty_value");
            }
        }
        if kind == OpKind::DelPresent && model.is_empty() {
            emptied = true;
            rep.count("tree_emptied_by_delete");
        }
        let want = model.root();

        // storage-backed tree
        match g::apply_tree(&mut stor, op) {
            Outcome::Ok => {}
            Outcome::Err(e) => {
                rep.violation(
                    format!("C12|{STOR}|{} returned Err on complete storage", g::op_name(op)),
                    format!("{STOR}: {} #{i} returned Err({e})", g::op_name(op)),
                    || case.to_json(i + 1),
                );
                broken = true;
                break 'ops;
            }
            Outcome::Panic(p) => {
                rep.violation(
                    format!("C12|{STOR}|panic|{}", p.site()),
                    format!("{STOR}: {} #{i} panicked: {}", g::op_name(op), p.text),
                    || case.to_json(i + 1),
                );
                broken = true;
                break 'ops;
            }
        }
        // in-memory tree
        let r = guarded(|| match op {
            Op::Ins(k, v) => mem.update(g::mk(k), v),
            Op::Del(k) => mem.delete(g::mk(k)),
        });
        if let Err(p) = r {
            rep.violation(
                format!("C12|{MEM}|panic|{}", p.site()),
                format!("{MEM}: {} #{i} panicked: {}", g::op_name(op), p.text),
                || case.to_json(i + 1),
            );
            broken = true;
            break 'ops;
        }
        rep.count("root_comparisons");
        for (name, got) in [(STOR, stor.root()), (MEM, mem.root())] {
            if got != want {
                rep.violation(
                    format!("C12|{name}|root!=reference|after={}", kind.name()),
                    format!(
                        "{name}: after op #{i} ({}) root {} != compact reference root {} of the {}-entry model map",
                        kind.name(),
                        hx(got),
                        hx(want),
                        model.len()
                    ),
                    || case.to_json(i + 1),
                );
                broken = true;
            }
        }
        if broken {
            break 'ops;
        }
    }

    // from_set family over the final map
    if !broken {
        // what a BTreeMap collect gives: last occurrence wins
        let final_map: BTreeMap<Key, Vec<u8>> = case.set_input.iter().cloned().collect();
        let model_map: BTreeMap<Key, Vec<u8>> = model.pairs().into_iter().collect();
        if final_map != model_map {
            // only possible for a hand-edited replay record: judge the set on its own
            rep.count("replay_set_input_differs_from_history_result");
        }
        let want = smt::root(&final_map);
        let dup = case.set_input.len() != final_map.len();
        if dup {
            rep.count("from_set_inputs_with_duplicate_keys");
        }
        let input = &case.set_input;
        let tag = if dup { "dup_keys" } else { "distinct_keys" };
        let results: Vec<(&str, Result<Result<[u8; 32], String>, crate::Panicked>)> = vec![
            (
                "sparse::MerkleTree::from_set(storage)",
                guarded(|| {
                    Tree::from_set(Store::new(), input.iter().map(|(k, v)| (*k, v.as_slice())))
                        .map(|t| t.root())
                        .map_err(|e| format!("{e:?}"))
                }),
            ),
            (
                "in_memory::MerkleTree::from_set",
                guarded(|| Ok(MemTree::from_set(input.iter().map(|(k, v)| (g::mk(k), v.as_slice()))).root())),
            ),
            (
                "in_memory::MerkleTree::root_from_set",
                guarded(|| Ok(MemTree::root_from_set(input.iter().map(|(k, v)| (g::mk(k), v.as_slice()))))),
            ),
            (
                "in_memory::MerkleTree::nodes_from_set(returned root)",
                guarded(|| Ok(MemTree::nodes_from_set(input.iter().map(|(k, v)| (g::mk(k), v.as_slice()))).0)),
            ),
            (
                "in_memory::MerkleTree::nodes_from_set(nodes loaded into fresh storage)",
                guarded(|| {
                    let (root, nodes) = MemTree::nodes_from_set(input.iter().map(|(k, v)| (g::mk(k), v.as_slice())));
                    let st = Store::new();
                    for (k, p) in nodes {
                        st.inner.borrow_mut().insert(k, p);
                    }
                    Tree::load(st, &root).map(|t| t.root()).map_err(|e| format!("load failed: {e:?}"))
                }),
            ),
        ];
        for (name, r) in results {
            rep.count("from_set_root_comparisons");
            match r {
                Ok(Ok(h)) if h == want => {}
                Ok(Ok(h)) => rep.violation(
                    format!("C12|{name}|root!=reference|{tag}"),
                    format!(
                        "{name}: root {} != compact reference root {} of the {}-entry final map ({} input pairs)",
                        hx(h),
                        hx(want),
                        final_map.len(),
                        input.len()
                    ),
                    || case.to_json(usize::MAX),
                ),
                Ok(Err(e)) => rep.violation(
                    format!("C12|{name}|Err"),
                    format!("{name}: {e}"),
                    || case.to_json(usize::MAX),
                ),
                Err(p) => rep.violation(
                    format!("C12|{name}|panic|{}", p.site()),
                    format!("{name}: panicked: {}", p.text),
                    || case.to_json(usize::MAX),
                ),
            }
        }
    }

    let maxp = g::max_shared_prefix(inserted.iter());
    let pb = maxp.map(g::prefix_bucket).unwrap_or("single");
    if let Some(p) = maxp {
        rep.max("max_shared_prefix_bits", p as u64);
    }
    if emptied {
        rep.count("histories_emptying_the_tree");
    }
    rep.class(format!(
        "prefix={pb}|mix={}|final={}",
        mix_string(&kinds, empty_value),
        bucket(model.len() as u64)
    ));
    rep.max("max_history_len", case.ops.len() as u64);
    rep.max("max_final_size", model.len() as u64);
    rep.sample(|| {
        json!({
            "ops": g::ops_json(&case.ops[..case.ops.len().min(6)]),
            "ops_total": case.ops.len(),
            "final_size": model.len(),
            "max_shared_prefix_bits": maxp,
            "reference_root": hx(model.root()),
            "storage_tree_root": hx(stor.root()),
        })
    });
}

pub fn run(cfg: &Cfg) -> Report {
    let mut rep = if let Some(rec) = &cfg.replay {
        let mut r = Report::new();
        let case = Case::from_json(rec);
        run_case(&mut r, &case);
        r.note(format!("replayed one history of {} operations", case.ops.len()));
        r
    } else {
        let total = cfg.budget(20_000, 1_000_000);
        let threads = cfg.threads.max(1) as u64;
        let mut rep = par(cfg.threads, |w| {
            let mut r = Report::new();
            let n = total / threads + u64::from((w as u64) < total % threads);
            for i in 0..n {
                let mut rng = Rng::derive(cfg.seed, 0x0C12_0000 + w as u64, i);
                let case = gen_case(&mut rng);
                run_case(&mut r, &case);
            }
            r
        });
        rep.gate("histories", rep.evaluations, total.min(1000));
        rep.gate("classes", rep.classes.len() as u64, 60);
        for k in ["op_insert_new", "op_overwrite", "op_overwrite_same_value", "op_delete_present", "op_delete_absent", "insert_empty_value", "tree_emptied_by_delete", "from_set_inputs_with_duplicate_keys"] {
            rep.gate(k, rep.counter(k), 1);
        }
        rep.gate("max_shared_prefix_bits", rep.counter("max_shared_prefix_bits"), 255);
        rep
    };
    rep.rule = "one evaluation = one history (1..80 insert/overwrite/delete ops over a clustered key universe) run on the storage-backed and the in-memory sparse tree with the root compared to the reference after every operation, then from_set(storage), in_memory::from_set, root_from_set, nodes_from_set (returned root and nodes loaded into a fresh storage) over the final map with duplicate keys; class = (bucket of the longest shared prefix among inserted keys, set of operation kinds I=insert new W=overwrite S=overwrite same value D=delete present A=delete absent E=empty value, final size bucket)".into();
    rep.assume("reference: compact sparse Merkle root by recursion on the sorted key set and bit depth (leaf = H(0x00,key,H(value)), node = H(0x01,l,r), empty = 32 zero bytes, single-leaf subtree = the leaf); sha2 crate trusted");
    rep.assume("keys are placed un-hashed with the public `unsafe fn MerkleTreeKey::convert`");
    rep.note("empty values: in this tree `in_memory::MerkleTree::update(k, b\"\")` forwards to `insert`, which stores a leaf over H(\"\") (there is no delete-on-empty rule in the code or its docs); the model therefore treats an empty value as a value");
    rep.note("duplicate keys inside a from_set input: the value that wins is the last occurrence (what the BTreeMap collect inside from_set yields)");
    rep
}
