//! C20 Only authorized inputs survive signature and predicate checks.
//!
//! Four groups of checks on generated script transactions with 1..8 inputs (signed coin /
//! message inputs with shared, distinct, permuted and defective witnesses; predicate coin /
//! message inputs with generated and hand-written programs):
//!  1. `check_signatures` against a direct recover-and-hash oracle, plus single-field
//!     mutations of accepted transactions;
//!  2. `check_predicates` against a harness-side reference run of every predicate;
//!  3. estimate-then-verify;
//!  4. sequential versus parallel checking/estimation under permuted completion orders.
#![allow(deprecated)]

use super::c20_exec::{
    DirtyPool,
    Provider,
    Sched,
    TurnstileExec,
    block_on,
    set_sched,
    take_observed,
};
use crate::{
    Cfg,
    Panicked,
    Report,
    Rng,
    guarded,
    hx,
    par,
    prog::{
        self,
        Env,
        Mode,
        Weights,
    },
    refmodel::{
        canon,
        sha256,
        tables::code_root,
    },
    world::secret,
};
use fuel_asm::{
    GMArgs,
    GTFArgs,
    Instruction,
    PanicReason,
    RegId,
    op,
};
use fuel_crypto::{
    Message,
    Signature,
};
use fuel_storage::StorageAsMut;
use fuel_tx::{
    BlobIdExt,
    ConsensusParameters,
    FormatValidityChecks,
    GasCosts,
    Input,
    Output,
    PredicateParameters,
    Script,
    Transaction,
    TxParameters,
    TxPointer,
    UniqueIdentifier,
    UtxoId,
    Witness,
    field::{
        Inputs,
        Outputs,
        Policies as PoliciesField,
        ReceiptsRoot,
        Script as ScriptField,
        ScriptData,
        ScriptGasLimit,
        Witnesses,
    },
    policies::{
        Policies,
        PolicyType,
    },
};
use fuel_types::{
    Address,
    AssetId,
    BlobId,
    BlockHeight,
    Bytes32,
    ChainId,
    ContractId,
    Nonce,
    canonical::Serialize,
};
use fuel_vm::{
    checked_transaction::{
        CheckError,
        CheckPredicateParams,
        CheckPredicates,
        Checked,
        Checks,
        EstimatePredicates,
        IntoChecked,
    },
    context::Context,
    error::PredicateVerificationFailed as Pvf,
    interpreter::{
        Interpreter,
        InterpreterParams,
        MemoryInstance,
        NotSupportedEcal,
        predicates,
    },
    predicate::RuntimePredicate,
    state::ExecuteState,
    storage::{
        BlobData,
        MemoryStorage,
        predicate::PredicateStorage,
    },
};
use serde_json::{
    Value,
    json,
};
use std::sync::atomic::Ordering;

const STREAM_GEN: u64 = 0x20c0;
const STREAM_EVAL: u64 = 0x20c1;
const GGAS: u8 = 9;
const CGAS: u8 = 10;
const R_SP: u8 = 5;
const R_HP: u8 = 7;
const R_IS: u8 = 12;

// ---------------------------------------------------------------------------------------
// input surgery (same idea as the C03 lenses: take an input apart through its public
// accessors, change one field, rebuild it through the public constructors)
// ---------------------------------------------------------------------------------------

#[derive(Clone)]
struct InParts {
    variant: usize,
    utxo: UtxoId,
    owner: Address,
    sender: Address,
    amount: u64,
    asset: AssetId,
    txp: TxPointer,
    widx: u16,
    pgu: u64,
    pred: Vec<u8>,
    pdata: Vec<u8>,
    data: Vec<u8>,
    nonce: Nonce,
    broot: Bytes32,
    sroot: Bytes32,
    cid: ContractId,
}

fn variant_of(i: &Input) -> usize {
    match i {
        Input::CoinSigned(_) => 0,
        Input::CoinPredicate(_) => 1,
        Input::Contract(_) => 2,
        Input::MessageCoinSigned(_) => 3,
        Input::MessageCoinPredicate(_) => 4,
        Input::MessageDataSigned(_) => 5,
        Input::MessageDataPredicate(_) => 6,
    }
}

const VARIANT_NAMES: [&str; 7] = ["CoinSigned", "CoinPredicate", "Contract", "MessageCoinSigned", "MessageCoinPredicate", "MessageDataSigned", "MessageDataPredicate"];

fn is_signed(v: usize) -> bool {
    matches!(v, 0 | 3 | 5)
}
fn is_pred(v: usize) -> bool {
    matches!(v, 1 | 4 | 6)
}

fn parts(i: &Input) -> InParts {
    InParts {
        variant: variant_of(i),
        utxo: i.utxo_id().copied().unwrap_or_default(),
        owner: i.input_owner().copied().unwrap_or_default(),
        sender: i.sender().copied().unwrap_or_default(),
        amount: i.amount().unwrap_or(0),
        asset: match i {
            Input::CoinSigned(c) => c.asset_id,
            Input::CoinPredicate(c) => c.asset_id,
            _ => AssetId::zeroed(),
        },
        txp: i.tx_pointer().copied().unwrap_or_default(),
        widx: i.witness_index().unwrap_or(0),
        pgu: i.predicate_gas_used().unwrap_or(0),
        pred: i.input_predicate().map(|b| b.to_vec()).unwrap_or_default(),
        pdata: i.input_predicate_data().map(|b| b.to_vec()).unwrap_or_default(),
        data: i.input_data().map(|b| b.to_vec()).unwrap_or_default(),
        nonce: i.nonce().copied().unwrap_or_default(),
        broot: i.balance_root().copied().unwrap_or_default(),
        sroot: i.state_root().copied().unwrap_or_default(),
        cid: i.contract_id().copied().unwrap_or_default(),
    }
}

fn build(p: &InParts) -> Input {
    match p.variant {
        0 => Input::coin_signed(p.utxo, p.owner, p.amount, p.asset, p.txp, p.widx),
        1 => Input::coin_predicate(p.utxo, p.owner, p.amount, p.asset, p.txp, p.pgu, p.pred.clone(), p.pdata.clone()),
        2 => Input::contract(p.utxo, p.broot, p.sroot, p.txp, p.cid),
        3 => Input::message_coin_signed(p.sender, p.owner, p.amount, p.nonce, p.widx),
        4 => Input::message_coin_predicate(p.sender, p.owner, p.amount, p.nonce, p.pgu, p.pred.clone(), p.pdata.clone()),
        5 => Input::message_data_signed(p.sender, p.owner, p.amount, p.nonce, p.widx, p.data.clone()),
        _ => Input::message_data_predicate(p.sender, p.owner, p.amount, p.nonce, p.pgu, p.data.clone(), p.pred.clone(), p.pdata.clone()),
    }
}

fn flip32(b: &mut [u8; 32], rng: &mut Rng) {
    b[rng.usize_below(32)] ^= 1 << rng.below(8);
}
fn mut_bytes(v: &mut Vec<u8>, rng: &mut Rng) {
    // never make a non-empty vector empty (that changes the input variant's wire shape)
    if v.is_empty() || rng.chance(1, 3) {
        v.push(rng.u8());
    } else {
        let i = rng.usize_below(v.len());
        v[i] ^= 1 << rng.below(8);
    }
}
fn mut_u64(x: &mut u64, rng: &mut Rng) {
    let old = *x;
    while *x == old {
        *x = match rng.below(3) {
            0 => old.wrapping_add(1),
            1 => old ^ (1 << rng.below(64)),
            _ => rng.word(),
        };
    }
}
macro_rules! mut_id {
    ($t:ty, $v:expr, $rng:expr) => {{
        let mut b: [u8; 32] = *$v;
        flip32(&mut b, $rng);
        $v = <$t>::new(b);
    }};
}

/// (field, malleable?) of input variant `v`
fn input_fields(v: usize) -> Vec<(&'static str, bool)> {
    match v {
        0 => vec![("utxo_id", false), ("owner", false), ("amount", false), ("asset_id", false), ("tx_pointer", true), ("witness_index", false)],
        1 => vec![("utxo_id", false), ("owner", false), ("amount", false), ("asset_id", false), ("tx_pointer", true), ("predicate_gas_used", true), ("predicate", false), ("predicate_data", false)],
        3 => vec![("sender", false), ("recipient", false), ("amount", false), ("nonce", false), ("witness_index", false)],
        4 => vec![("sender", false), ("recipient", false), ("amount", false), ("nonce", false), ("predicate_gas_used", true), ("predicate", false), ("predicate_data", false)],
        5 => vec![("sender", false), ("recipient", false), ("amount", false), ("nonce", false), ("witness_index", false), ("data", false)],
        6 => vec![("sender", false), ("recipient", false), ("amount", false), ("nonce", false), ("predicate_gas_used", true), ("data", false), ("predicate", false), ("predicate_data", false)],
        _ => vec![],
    }
}

fn mutate_input(i: &mut Input, field: &str, rng: &mut Rng) {
    let mut p = parts(i);
    match field {
        "utxo_id" => {
            let mut id: [u8; 32] = **p.utxo.tx_id();
            let mut oi = p.utxo.output_index();
            if rng.bool() {
                flip32(&mut id, rng);
            } else {
                oi ^= 1 << rng.below(16);
            }
            p.utxo = UtxoId::new(Bytes32::new(id), oi);
        }
        "owner" | "recipient" => mut_id!(Address, p.owner, rng),
        "sender" => mut_id!(Address, p.sender, rng),
        "amount" => mut_u64(&mut p.amount, rng),
        "asset_id" => mut_id!(AssetId, p.asset, rng),
        "tx_pointer" => {
            let (mut h, mut i) = (u32::from(p.txp.block_height()), p.txp.tx_index());
            if rng.bool() {
                h ^= 1 << rng.below(32);
            } else {
                i ^= 1 << rng.below(16);
            }
            p.txp = TxPointer::new(h.into(), i);
        }
        "witness_index" => p.widx ^= 1 << rng.below(16),
        "predicate_gas_used" => mut_u64(&mut p.pgu, rng),
        "predicate" => mut_bytes(&mut p.pred, rng),
        "predicate_data" => mut_bytes(&mut p.pdata, rng),
        "data" => mut_bytes(&mut p.data, rng),
        "nonce" => mut_id!(Nonce, p.nonce, rng),
        _ => unreachable!("input field {field}"),
    }
    *i = build(&p);
}

fn output_fields(o: &Output) -> Vec<(&'static str, bool)> {
    match o {
        Output::Coin { .. } => vec![("to", false), ("amount", false), ("asset_id", false)],
        Output::Change { .. } => vec![("to", false), ("amount", true), ("asset_id", false)],
        Output::Variable { .. } => vec![("to", true), ("amount", true), ("asset_id", true)],
        _ => vec![],
    }
}

fn output_name(o: &Output) -> &'static str {
    match o {
        Output::Coin { .. } => "Coin",
        Output::Change { .. } => "Change",
        Output::Variable { .. } => "Variable",
        Output::Contract(_) => "Contract",
        Output::ContractCreated { .. } => "ContractCreated",
    }
}

fn mutate_output(o: &mut Output, field: &str, rng: &mut Rng) {
    if let Output::Coin { to, amount, asset_id } | Output::Change { to, amount, asset_id } | Output::Variable { to, amount, asset_id } = o {
        match field {
            "to" => mut_id!(Address, *to, rng),
            "amount" => mut_u64(amount, rng),
            _ => mut_id!(AssetId, *asset_id, rng),
        }
    }
}

#[derive(Clone, Copy, Debug, PartialEq, Eq)]
enum LensKind {
    NonMalleable,
    Malleable,
    /// a witness that some signed input references
    WitnessReferenced,
    /// a witness no signed input references (or a pushed one)
    WitnessUnreferenced,
}

#[derive(Clone, Debug)]
struct Lens {
    name: String,
    kind: LensKind,
}

fn lenses(tx: &Script) -> Vec<Lens> {
    let mut v = vec![];
    let mk = |m: bool| if m { LensKind::Malleable } else { LensKind::NonMalleable };
    for (i, inp) in tx.inputs().iter().enumerate() {
        let var = variant_of(inp);
        for (f, m) in input_fields(var) {
            v.push(Lens { name: format!("inputs[{i}].{}.{f}", VARIANT_NAMES[var]), kind: mk(m) });
        }
    }
    for (i, o) in tx.outputs().iter().enumerate() {
        for (f, m) in output_fields(o) {
            v.push(Lens { name: format!("outputs[{i}].{}.{f}", output_name(o)), kind: mk(m) });
        }
    }
    let referenced: Vec<u16> = tx.inputs().iter().filter(|i| is_signed(variant_of(i))).filter_map(|i| i.witness_index()).collect();
    for i in 0..tx.witnesses().len() {
        let r = referenced.contains(&(i as u16));
        v.push(Lens { name: format!("witnesses[{i}]"), kind: if r { LensKind::WitnessReferenced } else { LensKind::WitnessUnreferenced } });
    }
    v.push(Lens { name: "witnesses.push".into(), kind: LensKind::WitnessUnreferenced });
    for n in ["inputs.push", "outputs.push", "policies.Tip", "policies.MaxFee", "policies.Maturity", "script_gas_limit", "script", "script_data"] {
        v.push(Lens { name: n.into(), kind: LensKind::NonMalleable });
    }
    v.push(Lens { name: "receipts_root".into(), kind: LensKind::Malleable });
    v
}

fn idx_of(name: &str) -> usize {
    let a = name.find('[').unwrap() + 1;
    let b = name.find(']').unwrap();
    name[a..b].parse().unwrap()
}

fn idx_hint(name: &str) -> u64 {
    name.bytes().fold(0u64, |a, b| a.wrapping_mul(131).wrapping_add(b as u64))
}

fn apply_lens(tx: &mut Script, l: &Lens, rng: &mut Rng) {
    let n = l.name.as_str();
    let field = n.rsplit('.').next().unwrap();
    if n.starts_with("inputs[") {
        mutate_input(&mut tx.inputs_mut()[idx_of(n)], field, rng);
    } else if n.starts_with("outputs[") {
        mutate_output(&mut tx.outputs_mut()[idx_of(n)], field, rng);
    } else if n.starts_with("witnesses[") {
        mut_bytes(tx.witnesses_mut()[idx_of(n)].as_vec_mut(), rng);
    } else {
        match n {
            "witnesses.push" => tx.witnesses_mut().push(rng.bytes_len_class(80).into()),
            "inputs.push" => {
                let utxo = UtxoId::new(Bytes32::new(rng.arr()), rng.below(4) as u16);
                tx.inputs_mut().push(Input::coin_predicate(utxo, Address::new(rng.arr()), 1 + rng.below(9), AssetId::new(rng.arr()), TxPointer::default(), 0, vec![0x24, 0, 0, 0], vec![]));
            }
            "outputs.push" => tx.outputs_mut().push(Output::coin(Address::new(rng.arr()), rng.below(3), AssetId::new(rng.arr()))),
            "policies.Tip" | "policies.MaxFee" | "policies.Maturity" => {
                let p = match field {
                    "Tip" => PolicyType::Tip,
                    "MaxFee" => PolicyType::MaxFee,
                    _ => PolicyType::Maturity,
                };
                let new = match tx.policies().get(p) {
                    Some(_) if rng.chance(1, 3) => None,
                    Some(v) => Some((v ^ (1 << rng.below(20))) & 0xffff_ffff),
                    None => Some(1 + rng.below(1000)),
                };
                tx.policies_mut().set(p, new);
            }
            "script_gas_limit" => mut_u64(tx.script_gas_limit_mut(), rng),
            "script" => mut_bytes(tx.script_mut(), rng),
            "script_data" => mut_bytes(tx.script_data_mut(), rng),
            "receipts_root" => {
                let mut b: [u8; 32] = **tx.receipts_root();
                flip32(&mut b, rng);
                *tx.receipts_root_mut() = Bytes32::new(b);
            }
            _ => unreachable!("lens {n}"),
        }
    }
}

// ---------------------------------------------------------------------------------------
// oracles
// ---------------------------------------------------------------------------------------

/// Address of a predicate: sha256("FUEL" ‖ code root), code root by the reference Merkle
/// model (C15 vouches for the library's own computation).
fn ref_predicate_owner(code: &[u8]) -> [u8; 32] {
    sha256(&[&[0x46, 0x55, 0x45, 0x4C], &code_root(code)])
}

/// Why the signature check must fail (first failing input), or `Ok`.
fn sig_oracle(tx: &Script, chain: &ChainId) -> Result<(), (usize, &'static str)> {
    // `tx` carries no cached metadata here, so `id` is computed (C03 vouches for it)
    let id = tx.id(chain);
    let msg = Message::from_bytes(*id);
    for (i, inp) in tx.inputs().iter().enumerate() {
        let v = variant_of(inp);
        if is_signed(v) {
            let owner = inp.input_owner().expect("signed input has an owner");
            let widx = inp.witness_index().expect("signed input has a witness index") as usize;
            let Some(w) = tx.witnesses().get(widx) else { return Err((i, "witness index out of bounds")) };
            let Ok(b) = <[u8; 64]>::try_from(w.as_ref()) else { return Err((i, "witness is not 64 bytes")) };
            let sig = Signature::from_bytes(b);
            let Ok(pk) = sig.recover(&msg) else { return Err((i, "witness does not recover to a key")) };
            let pkb: &[u8] = pk.as_ref();
            if sha256(&[pkb]) != **owner {
                return Err((i, "witness recovers to a different address"));
            }
        } else if is_pred(v) {
            let owner = inp.input_owner().expect("predicate input has an owner");
            if ref_predicate_owner(inp.input_predicate().expect("predicate")) != **owner {
                return Err((i, "predicate owner != predicate address"));
            }
        }
    }
    Ok(())
}

#[derive(Clone, Debug, PartialEq, Eq)]
enum RefEnd {
    Return(u64),
    ReturnData,
    Revert(u64),
    OutOfGas,
    Panic(String),
    InitError(String),
    Other(String),
}

impl RefEnd {
    fn class(&self) -> String {
        match self {
            RefEnd::Return(1) => "return-1".into(),
            RefEnd::Return(0) => "return-0".into(),
            RefEnd::Return(_) => "return-other".into(),
            RefEnd::ReturnData => "return-data".into(),
            RefEnd::Revert(_) => "revert".into(),
            RefEnd::OutOfGas => "out-of-gas".into(),
            RefEnd::Panic(r) => format!("panic:{r}"),
            RefEnd::InitError(_) => "init-error".into(),
            RefEnd::Other(_) => "other".into(),
        }
    }
}

#[derive(Clone, Debug)]
struct RefRun {
    end: RefEnd,
    gas_used: u64,
    remaining: u64,
    /// some executed instruction named `$ggas`/`$cgas` as an operand
    introspects: bool,
    steps: u64,
}

const STEP_CAP: u64 = 3_000_000;

/// Harness-side run of the predicate of input `idx` on an own interpreter.
/// `Err` = the run could not be completed by the harness (never judged).
fn ref_run(tx: &Script, idx: usize, gas_limit: u64, cp: &ConsensusParameters, storage: &MemoryStorage) -> Result<RefRun, String> {
    let tx_offset = cp.tx_params().tx_offset();
    let Some(program) = RuntimePredicate::from_tx(tx, tx_offset, idx) else { return Err("not a predicate input".into()) };
    // the location of the predicate inside the transaction, by the reference layout
    let (_, layout) = canon::encode_tx(&Transaction::Script(tx.clone()));
    if let Some((off, _)) = layout.get(&format!("inputs[{idx}].predicate")) {
        if program.program().start() != tx_offset + off {
            return Err(format!("predicate offset: library {} reference {}", program.program().start(), tx_offset + off));
        }
    }
    let r = guarded(|| {
        let mut vm = Interpreter::<_, _, Script>::with_storage(MemoryInstance::new(), PredicateStorage::new(storage), InterpreterParams::new(0, cp));
        if let Err(e) = vm.init_predicate(Context::PredicateVerification { program }, tx.clone(), gas_limit) {
            return Ok(RefRun { end: RefEnd::InitError(format!("{e:?}")), gas_used: 0, remaining: gas_limit, introspects: false, steps: 0 });
        }
        let mut introspects = false;
        let mut steps = 0u64;
        let end = loop {
            if steps >= STEP_CAP {
                return Err("step cap".to_string());
            }
            steps += 1;
            let pc = vm.registers()[RegId::PC];
            if let Ok(b) = vm.memory().read_bytes::<_, 4>(pc) {
                if let Ok(ins) = Instruction::try_from(b) {
                    if ins.reg_ids().iter().flatten().any(|r| matches!(r.to_u8(), GGAS | CGAS)) {
                        introspects = true;
                    }
                }
            }
            match vm.execute::<true>() {
                Ok(ExecuteState::Proceed) => continue,
                Ok(ExecuteState::Return(v)) => break RefEnd::Return(v),
                Ok(ExecuteState::ReturnData(_)) => break RefEnd::ReturnData,
                Ok(ExecuteState::Revert(v)) => break RefEnd::Revert(v),
                Ok(ExecuteState::DebugEvent(d)) => break RefEnd::Other(format!("debug event {d:?}")),
                Err(e) => match e.panic_reason() {
                    Some(PanicReason::OutOfGas) => break RefEnd::OutOfGas,
                    Some(r) => break RefEnd::Panic(format!("{r:?}")),
                    None => break RefEnd::Other(format!("{e:?}").chars().take(80).collect()),
                },
            }
        };
        let remaining = vm.remaining_gas();
        Ok(RefRun { end, gas_used: gas_limit.saturating_sub(remaining), remaining, introspects, steps })
    });
    match r {
        Ok(x) => x,
        Err(p) => Err(format!("host panic in reference run: {}", p.text)),
    }
}

/// What verification must say about one predicate input.
#[derive(Clone, Debug, PartialEq, Eq)]
enum Exp {
    Ok,
    Owner,
    NotOne(String),
    Gas,
}

impl Exp {
    fn what(&self) -> String {
        match self {
            Exp::Ok => "authorized".into(),
            Exp::Owner => "predicate owner != predicate address".into(),
            Exp::NotOne(c) => format!("predicate did not return 1 ({c})"),
            Exp::Gas => "predicate did not use exactly its declared gas".into(),
        }
    }
}

fn expect_of(inp: &Input, run: &RefRun) -> Exp {
    if ref_predicate_owner(inp.input_predicate().expect("predicate")) != **inp.input_owner().expect("owner") {
        return Exp::Owner;
    }
    match run.end {
        RefEnd::Return(1) if run.remaining == 0 => Exp::Ok,
        RefEnd::Return(1) => Exp::Gas,
        _ => Exp::NotOne(run.end.class()),
    }
}

// ---------------------------------------------------------------------------------------
// hand-written predicates
// ---------------------------------------------------------------------------------------

fn asm(v: Vec<Instruction>) -> Vec<u8> {
    v.into_iter().flat_map(|i| u32::from(i).to_be_bytes()).collect()
}

struct Pred {
    code: Vec<u8>,
    data: Vec<u8>,
    kind: &'static str,
}

/// `is_msg`: the input is a message (selects the GTF selector family); `n_inputs`: final
/// number of inputs; `amount`: the input's amount; `blobs`: installed blobs.
fn hand_predicate(rng: &mut Rng, pick: u64, is_msg: bool, n_inputs: usize, amount: u64, blobs: &[(BlobId, Vec<u8>)], gas_cap: u64) -> Pred {
    let pdata_sel = if is_msg { GTFArgs::InputMessagePredicateData } else { GTFArgs::InputCoinPredicateData };
    let amount_sel = if is_msg { GTFArgs::InputMessageAmount } else { GTFArgs::InputCoinAmount };
    match pick {
        0 => Pred { code: asm(vec![op::ret(1)]), data: rng.bytes_len_class(40), kind: "ret-one" },
        1 => Pred { code: asm(vec![op::ret(0)]), data: vec![], kind: "ret-zero" },
        2 => Pred { code: asm(vec![op::ji(0)]), data: vec![], kind: "infinite-loop" },
        3 => {
            // compare the first word of the predicate data with a constant
            let k = rng.below(1 << 18);
            let good = !rng.chance(1, 6);
            let mut data = (if good { k } else { k ^ (1 << rng.below(18)) }).to_be_bytes().to_vec();
            let tail = rng.usize_below(17);
            data.extend(rng.bytes(tail));
            let code = asm(vec![op::gm_args(16, GMArgs::GetVerifyingPredicate), op::gtf_args(17, 16, pdata_sel), op::lw(18, 17, 0), op::movi(19, k as u32), op::eq(20, 18, 19), op::ret(20)]);
            Pred { code, data, kind: if good { "data-compare" } else { "data-compare-mismatch" } }
        }
        4 => {
            let sub = rng.below(3);
            if sub == 2 {
                // the transaction in VM memory has the malleable predicate gas zeroed
                let sel = if is_msg { GTFArgs::InputMessagePredicateGasUsed } else { GTFArgs::InputCoinPredicateGasUsed };
                let code = asm(vec![op::gm_args(16, GMArgs::GetVerifyingPredicate), op::gtf_args(17, 16, sel), op::eq(18, 17, 0), op::ret(18)]);
                Pred { code, data: vec![], kind: "gtf-own-gas-used" }
            } else if sub == 0 {
                let good = !rng.chance(1, 6);
                let n = if good { n_inputs } else { n_inputs + 1 };
                let code = asm(vec![op::gtf_args(16, 0, GTFArgs::ScriptInputsCount), op::movi(17, n as u32), op::eq(18, 16, 17), op::ret(18)]);
                Pred { code, data: vec![], kind: if good { "gtf-inputs-count" } else { "gtf-inputs-count-mismatch" } }
            } else {
                let code = asm(vec![op::gm_args(16, GMArgs::GetVerifyingPredicate), op::gtf_args(17, 16, amount_sel), op::movi(18, (amount & 0x3ffff) as u32), op::eq(19, 17, 18), op::ret(19)]);
                Pred { code, data: vec![], kind: "gtf-own-amount" }
            }
        }
        5 if !blobs.is_empty() => {
            let unknown = rng.chance(1, 8);
            let (id, blob) = rng.pick(blobs).clone();
            let id: [u8; 32] = if unknown { rng.arr() } else { *id };
            let off = rng.usize_below(blob.len() - 8 + 1);
            let want = u64::from_be_bytes(blob[off..off + 8].try_into().unwrap());
            let ins = vec![
                op::addi(16, R_IS, 56),
                op::move_(20, R_SP),
                op::cfei(64),
                op::bsiz(17, 16),
                op::movi(18, blob.len() as u32),
                op::eq(19, 17, 18),
                op::movi(21, off as u32),
                op::movi(22, 8),
                op::bldd(20, 16, 21, 22),
                op::lw(23, 20, 0),
                op::lw(24, 16, 4),
                op::eq(25, 23, 24),
                op::and(19, 19, 25),
                op::ret(19),
            ];
            let mut code = asm(ins);
            debug_assert_eq!(code.len(), 56);
            code.extend_from_slice(&id);
            code.extend_from_slice(&want.to_be_bytes());
            Pred { code, data: vec![], kind: if unknown { "blob-unknown" } else { "blob-load" } }
        }
        6 => {
            let n = 1 + rng.below(400);
            Pred { code: asm(vec![op::movi(16, n as u32), op::subi(16, 16, 1), op::jnzb(16, 0, 0), op::ret(1)]), data: vec![], kind: "counted-loop" }
        }
        7 => Pred { code: asm(vec![op::rvrt(1)]), data: vec![], kind: "revert" },
        8 => Pred { code: asm(vec![op::retd(0, 0)]), data: vec![], kind: "retd" },
        9 => {
            let code = asm(vec![op::movi(16, 1024), op::aloc(16), op::sw(R_HP, 1, 0), op::move_(17, R_SP), op::cfei(512), op::movi(18, 256), op::mcl(17, 18), op::lw(19, R_HP, 0), op::ret(19)]);
            Pred { code, data: rng.bytes_len_class(64), kind: "memory" }
        }
        // deliberately gas-introspecting programs
        10 => {
            let k = rng.range(1, gas_cap / 2).min((1 << 18) - 1);
            let r = if rng.bool() { GGAS } else { CGAS };
            Pred { code: asm(vec![op::movi(17, k as u32), op::gt(16, r, 17), op::ret(16)]), data: vec![], kind: "gas-introspect-return" }
        }
        11 => {
            let k = rng.range(1, gas_cap / 2).min((1 << 18) - 1);
            Pred { code: asm(vec![op::movi(17, k as u32), op::gt(16, GGAS, 17), op::jnzf(16, 0, 1), op::ret(0), op::ret(1)]), data: vec![], kind: "gas-introspect-branch" }
        }
        12 => {
            let k = rng.range(1, gas_cap / 2).min((1 << 18) - 1);
            Pred { code: asm(vec![op::movi(17, k as u32), op::gt(16, GGAS, 17), op::jnzb(16, 0, 0), op::ret(1)]), data: vec![], kind: "gas-introspect-spin" }
        }
        13 => Pred { code: asm(vec![op::move_(16, GGAS), op::move_(17, CGAS), op::ret(1)]), data: vec![], kind: "gas-introspect-benign" },
        _ => Pred { code: asm(vec![op::noop(), op::ret(1)]), data: vec![], kind: "ret-one" },
    }
}

// ---------------------------------------------------------------------------------------
// case generation
// ---------------------------------------------------------------------------------------

struct Case {
    cp: ConsensusParameters,
    height: BlockHeight,
    storage: MemoryStorage,
    tx: Script,
    /// per-transaction gas budget chosen so tight that estimation budgets bind
    tight: bool,
    /// program kind per input ("" for signed inputs)
    kinds: Vec<&'static str>,
    /// defects applied by the generator (informational)
    defects: Vec<&'static str>,
    /// reference runs with the per-predicate maximum as limit (index = input index)
    generous: Vec<Option<RefRun>>,
    info: Value,
}

struct GenIn {
    variant: usize,
    key: u64,
    slot: usize,
    amount: u64,
    asset: usize,
    data: Vec<u8>,
    pred: Option<Pred>,
}

fn gen_predicate(rng: &mut Rng, env: &Env, is_msg: bool, n_inputs: usize, amount: u64, blobs: &[(BlobId, Vec<u8>)], gas_cap: u64, only_good: bool) -> Pred {
    let x = rng.below(100);
    if x < 45 {
        let w = Weights { alu: 10, mem: 10, stack: 4, heap: 3, log: 0, storage: 0, call: 0, money: 0, query: 12, crypto: 2, introspect: 4, flow: 6, wide: 1, hostile: if only_good { 0 } else { 40 }, garbage: if only_good { 0 } else { 3 }, ..Weights::default() };
        let n = 1 + rng.usize_below(9);
        let p = prog::generate(rng, env, Mode::Predicate, w, n);
        return Pred { code: p.bytes, data: rng.bytes_len_class(48), kind: "generated" };
    }
    let pick = match x {
        45..=55 => 0,
        56..=58 => 1,
        59..=60 => 2,
        61..=69 => 3,
        70..=77 => 4,
        78..=84 => 5,
        85..=89 => 6,
        90 => 7,
        91 => 8,
        92..=94 => 9,
        95 => 10,
        96 => 11,
        97 => 12,
        98 => 13,
        _ => 0,
    };
    hand_predicate(rng, pick, is_msg, n_inputs, amount, blobs, gas_cap)
}

fn build_input(g: &GenIn, n: usize, salt: &[u8; 8], assets: &[AssetId], widx: u16) -> Input {
    let utxo = UtxoId::new(Bytes32::new(sha256(&[b"c20-utxo", salt, &[n as u8]])), n as u16);
    let nonce = Nonce::new(sha256(&[b"c20-nonce", salt, &[n as u8]]));
    let sender = Address::new(sha256(&[b"c20-sender", &[n as u8]]));
    let owner = match &g.pred {
        Some(p) => Input::predicate_owner(&p.code),
        None => Input::owner(&secret(g.key).public_key()),
    };
    let (code, pdata) = g.pred.as_ref().map(|p| (p.code.clone(), p.data.clone())).unwrap_or_default();
    match g.variant {
        0 => Input::coin_signed(utxo, owner, g.amount, assets[g.asset], TxPointer::new((n as u32).into(), n as u16), widx),
        1 => Input::coin_predicate(utxo, owner, g.amount, assets[g.asset], TxPointer::new(3u32.into(), 1), 0, code, pdata),
        3 => Input::message_coin_signed(sender, owner, g.amount, nonce, widx),
        4 => Input::message_coin_predicate(sender, owner, g.amount, nonce, 0, code, pdata),
        5 => Input::message_data_signed(sender, owner, g.amount, nonce, widx, g.data.clone()),
        _ => Input::message_data_predicate(sender, owner, g.amount, nonce, 0, g.data.clone(), code, pdata),
    }
}

fn gen_case(seed: u64, worker: u64, idx: u64) -> Result<Case, String> {
    let mut rng = Rng::derive(seed ^ (STREAM_GEN << 32), worker, idx);
    let rng = &mut rng;
    // --- consensus parameters
    let mut cp = ConsensusParameters::standard();
    let chain = *rng.pick(&[0u64, 1, 9889, u64::MAX]);
    cp.set_chain_id(ChainId::new(chain));
    let schedule = if rng.chance(3, 10) { "unit" } else { "default" };
    if schedule == "unit" {
        cp.set_gas_costs(GasCosts::unit());
    }
    let gas_cap = *rng.pick(&[3_000u64, 20_000, 60_000]);
    cp.set_predicate_params(PredicateParameters::DEFAULT.with_max_gas_per_predicate(gas_cap));
    cp.set_tx_params(TxParameters::DEFAULT.with_max_gas_per_tx(100_000_000));
    let height: BlockHeight = 10u32.into();
    let base = *cp.base_asset_id();
    let assets = vec![base, AssetId::new(sha256(&[b"c20-asset", &[1]])), AssetId::new(sha256(&[b"c20-asset", &[2]]))];
    // --- storage with a few blobs
    let mut storage = MemoryStorage::new(height, ContractId::new([0xcb; 32]));
    let mut blobs = vec![];
    for _ in 0..1 + rng.below(3) {
        let blen = 8 + rng.usize_below(300);
        let data = rng.bytes(blen);
        let id = BlobId::compute(&data);
        storage.storage_as_mut::<BlobData>().insert(&id, data.as_slice()).map_err(|e| format!("{e:?}"))?;
        blobs.push((id, data));
    }
    storage.commit();
    // --- inputs
    let n = 1 + rng.usize_below(8);
    let p_pred = match rng.below(10) {
        0 => 0,
        1..=6 => 50,
        _ => 100,
    };
    let intended_good = rng.chance(55, 100);
    let env = Env { contracts: vec![], foreign_contracts: vec![], assets: assets.clone(), blobs: blobs.iter().map(|b| *b.0).collect(), variable_outputs: vec![], n_inputs: n as u16, n_outputs: 3, n_witnesses: 3, ..Default::default() };
    let mut ins: Vec<GenIn> = vec![];
    let mut slots: Vec<u64> = vec![]; // key per witness slot, u64::MAX = unreferenced garbage
    for i in 0..n {
        let pred = rng.below(100) < p_pred;
        let variant = if i == 0 {
            // at least one spendable input
            if pred { *rng.pick(&[1usize, 4]) } else { *rng.pick(&[0usize, 3]) }
        } else if pred {
            *rng.pick(&[1usize, 1, 4, 6])
        } else {
            *rng.pick(&[0usize, 0, 3, 5])
        };
        let amount = 10 + rng.below(1000);
        let asset = if variant <= 1 { rng.usize_below(assets.len()) } else { 0 };
        let dlen = 1 + rng.usize_below(40);
        let data = if variant >= 5 { rng.bytes(dlen) } else { vec![] };
        let mut g = GenIn { variant, key: 0, slot: 0, amount, asset, data, pred: None };
        if pred {
            g.pred = Some(gen_predicate(rng, &env, variant != 1, n, amount, &blobs, gas_cap, intended_good));
        } else {
            g.key = rng.below(5);
            let same: Vec<usize> = slots.iter().enumerate().filter(|(_, k)| **k == g.key).map(|(s, _)| s).collect();
            g.slot = if !same.is_empty() && rng.chance(7, 10) {
                *rng.pick(&same)
            } else {
                slots.push(g.key);
                slots.len() - 1
            };
        }
        ins.push(g);
    }
    for _ in 0..rng.below(3) {
        slots.push(u64::MAX);
    }
    // final witness index of every slot: a random permutation
    let mut perm: Vec<usize> = (0..slots.len()).collect();
    rng.shuffle(&mut perm);
    let mut salt = [0u8; 8];
    salt.copy_from_slice(&(seed ^ worker.rotate_left(20) ^ idx.rotate_left(40)).to_be_bytes());
    // --- outputs
    let mut outputs = vec![];
    let coin_assets: Vec<usize> = ins.iter().filter(|g| g.variant <= 1).map(|g| g.asset).collect();
    let any_msg = ins.iter().any(|g| g.variant >= 3);
    if rng.chance(6, 10) {
        let a = if !coin_assets.is_empty() { Some(*rng.pick(&coin_assets)) } else if any_msg { Some(0) } else { None };
        if let Some(a) = a {
            outputs.push(Output::change(Address::new(sha256(&[b"c20-change"])), 0, assets[a]));
        }
    }
    if !coin_assets.is_empty() && rng.chance(5, 10) {
        outputs.push(Output::coin(Address::new([0xc0; 32]), rng.below(3), assets[*rng.pick(&coin_assets)]));
    }
    if rng.chance(3, 10) {
        outputs.push(Output::variable(Address::zeroed(), 0, AssetId::zeroed()));
    }
    let policies = {
        let mut p = Policies::new().with_max_fee(0);
        if rng.chance(1, 4) {
            p = p.with_maturity((rng.below(10) as u32).into());
        }
        p
    };
    let script = asm(vec![op::ret(1)]);
    let script_data = rng.bytes_len_class(24);
    let assemble = |ins: &[GenIn], witnesses: Vec<Witness>| -> Script {
        let inputs: Vec<Input> = ins.iter().enumerate().map(|(i, g)| build_input(g, i, &salt, &assets, perm.get(g.slot).copied().unwrap_or(0) as u16)).collect();
        Transaction::script(1000, script.clone(), script_data.clone(), policies, inputs, outputs.clone(), witnesses)
    };
    let blank: Vec<Witness> = slots.iter().map(|_| vec![0u8; 64].into()).collect();
    // --- screening for transactions meant to verify: replace predicates that do not
    //     return 1 on an unsigned draft of the transaction
    if intended_good {
        for _round in 0..3 {
            let draft = assemble(&ins, blank.clone());
            let mut changed = false;
            for i in 0..n {
                if ins[i].pred.is_none() {
                    continue;
                }
                let ok = matches!(ref_run(&draft, i, gas_cap, &cp, &storage), Ok(RefRun { end: RefEnd::Return(1), .. }));
                if !ok {
                    let g = &ins[i];
                    let p = if _round == 2 { hand_predicate(rng, 0, false, n, 0, &blobs, gas_cap) } else { gen_predicate(rng, &env, g.variant != 1, n, g.amount, &blobs, gas_cap, true) };
                    ins[i].pred = Some(p);
                    changed = true;
                }
            }
            if !changed {
                break;
            }
        }
    }
    let mut tx = assemble(&ins, blank);
    let mut defects: Vec<&'static str> = vec![];
    let signed_idx: Vec<usize> = (0..n).filter(|i| ins[*i].pred.is_none()).collect();
    let pred_idx: Vec<usize> = (0..n).filter(|i| ins[*i].pred.is_some()).collect();
    let dirty = !intended_good && rng.chance(8, 10);
    // --- defects that are part of the signed content
    if dirty {
        for _ in 0..1 + rng.below(2) {
            match rng.below(6) {
                0 if !signed_idx.is_empty() && slots.len() >= 2 => {
                    let i = *rng.pick(&signed_idx);
                    let mut p = parts(&tx.inputs()[i]);
                    let other = (p.widx as usize + 1 + rng.usize_below(slots.len() - 1)) % slots.len();
                    p.widx = other as u16;
                    tx.inputs_mut()[i] = build(&p);
                    defects.push("witness index points at another witness");
                }
                1 if !signed_idx.is_empty() && rng.chance(1, 3) => {
                    let i = *rng.pick(&signed_idx);
                    let mut p = parts(&tx.inputs()[i]);
                    p.widx = (slots.len() + rng.usize_below(3)) as u16;
                    tx.inputs_mut()[i] = build(&p);
                    defects.push("witness index out of bounds");
                }
                2 if !signed_idx.is_empty() => {
                    let i = *rng.pick(&signed_idx);
                    let mut p = parts(&tx.inputs()[i]);
                    mut_id!(Address, p.owner, rng);
                    tx.inputs_mut()[i] = build(&p);
                    defects.push("signed input owner changed");
                }
                3 | 4 if !pred_idx.is_empty() => {
                    let i = *rng.pick(&pred_idx);
                    let mut p = parts(&tx.inputs()[i]);
                    mut_id!(Address, p.owner, rng);
                    tx.inputs_mut()[i] = build(&p);
                    defects.push("predicate input owner changed");
                }
                _ => {}
            }
        }
    }
    // --- sign
    let chain_id = cp.chain_id();
    let id = tx.id(&chain_id);
    let msg = Message::from_bytes(*id);
    for (s, key) in slots.iter().enumerate() {
        let w: Vec<u8> = if *key == u64::MAX {
            let l = *rng.pick(&[0usize, 10, 64, 64, 65]);
            rng.bytes(l)
        } else {
            Signature::sign(&secret(*key), &msg).as_ref().to_vec()
        };
        tx.witnesses_mut()[perm[s]] = w.into();
    }
    // --- defects outside the signed content / after signing
    if dirty {
        let referenced: Vec<usize> = signed_idx.iter().map(|i| tx.inputs()[*i].witness_index().unwrap() as usize).filter(|w| *w < slots.len()).collect();
        for _ in 0..rng.below(3) {
            if referenced.is_empty() {
                break;
            }
            let wi = *rng.pick(&referenced);
            let w = tx.witnesses_mut()[wi].as_vec_mut();
            match rng.below(8) {
                0 => {
                    *w = Signature::sign(&secret(5 + rng.below(3)), &msg).as_ref().to_vec();
                    defects.push("signed with a key outside the pool");
                }
                1 => {
                    let k = slots[perm.iter().position(|p| *p == wi).unwrap()];
                    *w = Signature::sign(&secret((k.wrapping_add(1 + rng.below(4))) % 5), &msg).as_ref().to_vec();
                    defects.push("signed with another pool key");
                }
                2 => {
                    w.truncate(63);
                    defects.push("witness too short");
                }
                3 => {
                    w.push(rng.u8());
                    defects.push("witness too long");
                }
                4 => {
                    *w = rng.bytes(64);
                    defects.push("witness garbage");
                }
                5 => {
                    let i = rng.usize_below(w.len().max(1));
                    if let Some(b) = w.get_mut(i) {
                        *b ^= 1 << rng.below(8);
                    }
                    defects.push("signature bit flipped");
                }
                6 => {
                    let other = tx_id_for_chain(&tx, chain ^ 1);
                    let k = slots[perm.iter().position(|p| *p == wi).unwrap()];
                    if k != u64::MAX {
                        *tx.witnesses_mut()[wi].as_vec_mut() = Signature::sign(&secret(k), &Message::from_bytes(other)).as_ref().to_vec();
                        defects.push("signature over the id for another chain");
                    }
                }
                _ => {
                    w.clear();
                    defects.push("witness empty");
                }
            }
        }
        if rng.chance(1, 8) {
            let mut p = parts(&tx.inputs()[0]);
            p.amount += 1;
            tx.inputs_mut()[0] = build(&p);
            defects.push("amount changed after signing");
        }
    }
    // --- reference runs with the maximum limit, then the declared gas
    let mut generous: Vec<Option<RefRun>> = vec![None; n];
    for i in pred_idx.iter() {
        generous[*i] = Some(ref_run(&tx, *i, gas_cap, &cp, &storage)?);
    }
    let mut cap_override: Option<u64> = None;
    let mode = if intended_good { rng.below(100) * 70 / 100 } else { rng.below(100) };
    let victim = if pred_idx.is_empty() { usize::MAX } else { *rng.pick(&pred_idx) };
    for i in pred_idx.iter() {
        let u = generous[*i].as_ref().unwrap().gas_used;
        let declared = match mode {
            0..=54 => u,
            55..=79 if *i == victim && pred_idx.len() == 1 && u > 0 && rng.below(4) == 0 => {
                // the chain's per-predicate maximum is exactly what this predicate uses and
                // the declared gas lies above it: "exactly its declared gas" is about the
                // declared amount, whatever the chain's maximum
                cap_override = Some(u);
                u + 1 + rng.below(60)
            }
            55..=79 if *i == victim => match rng.below(7) {
                0 => u + 1,
                1 => u.saturating_sub(1),
                2 => 0,
                3 => u * 2,
                4 => gas_cap,
                5 => gas_cap + 1 + rng.below(gas_cap),
                _ => u + rng.below(50),
            },
            55..=79 => u,
            _ => match rng.below(4) {
                0 => 0,
                1 => u,
                _ => rng.below(gas_cap + 1),
            },
        };
        tx.inputs_mut()[*i].set_predicate_gas_used(declared);
    }
    let gas_cap = match cap_override {
        Some(c) => {
            cp.set_predicate_params(PredicateParameters::DEFAULT.with_max_gas_per_predicate(c));
            for i in pred_idx.iter() {
                generous[*i] = Some(ref_run(&tx, *i, c, &cp, &storage)?);
            }
            defects.push("declared predicate gas above the chain's per-predicate maximum");
            c
        }
        None => gas_cap,
    };
    // --- tight per-transaction budget (estimation budgets bind; estimation unjudged)
    let tight = rng.chance(6, 100);
    if tight {
        use fuel_tx::Chargeable;
        let max_gas = tx.max_gas(cp.gas_costs(), cp.fee_params());
        let sum: u64 = generous.iter().flatten().map(|r| r.gas_used).sum();
        cp.set_tx_params(TxParameters::DEFAULT.with_max_gas_per_tx(max_gas + rng.below(sum + 2)));
    }
    let kinds: Vec<&'static str> = ins.iter().map(|g| g.pred.as_ref().map(|p| p.kind).unwrap_or("")).collect();
    let info = json!({"seed": seed, "worker": worker, "index": idx, "chain_id": chain.to_string(), "schedule": schedule, "max_gas_per_predicate": gas_cap, "max_gas_per_tx": cp.tx_params().max_gas_per_tx(), "tight": tight, "blobs": blobs.iter().map(|b| hx(&b.1)).collect::<Vec<_>>()});
    Ok(Case { cp, height, storage, tx, tight, kinds, defects, generous, info })
}

fn tx_id_for_chain(tx: &Script, chain: u64) -> [u8; 32] {
    *tx.id(&ChainId::new(chain))
}

// ---------------------------------------------------------------------------------------
// library results in a comparable form
// ---------------------------------------------------------------------------------------

#[derive(Clone, Debug)]
enum LibErr {
    Pvf(Pvf),
    Other(String),
}

/// `Ok(Some(total gas))` when the call reports the cumulative gas
type LibRes = Result<Result<Option<u64>, LibErr>, Panicked>;

fn variant_name(dbg: &str) -> String {
    dbg.chars().take_while(|c| c.is_ascii_alphanumeric() || *c == '_').collect()
}

fn pvf_index(e: &Pvf) -> Option<usize> {
    match e {
        Pvf::GasMismatch { index } | Pvf::OutOfGas { index } | Pvf::InvalidOwner { index } | Pvf::False { index } | Pvf::GasNotSpecified { index } | Pvf::Storage { index } => Some(*index),
        Pvf::PanicInstruction { index, .. } | Pvf::Panic { index, .. } => Some(*index),
        _ => None,
    }
}

fn pvf_kind(e: &Pvf) -> String {
    match e {
        Pvf::PanicInstruction { instruction, .. } => format!("PanicInstruction:{:?}", instruction.reason()),
        Pvf::Panic { reason, .. } => format!("Panic:{reason:?}"),
        Pvf::Bug(b) => format!("Bug:{}", variant_name(&format!("{b:?}"))),
        other => variant_name(&format!("{other:?}")),
    }
}

fn err_kind(e: &LibErr) -> String {
    match e {
        LibErr::Pvf(p) => pvf_kind(p),
        LibErr::Other(s) => format!("other:{}", variant_name(s)),
    }
}

fn res_class(r: &LibRes) -> String {
    match r {
        Ok(Ok(_)) => "Ok".into(),
        Ok(Err(e)) => err_kind(e),
        Err(_) => "host-panic".into(),
    }
}

fn from_check(r: Result<Result<Checked<Script>, CheckError>, Panicked>) -> (LibRes, Option<Checked<Script>>) {
    match r {
        Ok(Ok(c)) => (Ok(Ok(None)), Some(c)),
        Ok(Err(CheckError::PredicateVerificationFailed(e))) => (Ok(Err(LibErr::Pvf(e))), None),
        Ok(Err(e)) => (Ok(Err(LibErr::Other(format!("{e:?}")))), None),
        Err(p) => (Err(p), None),
    }
}

fn from_module(r: Result<Result<u64, Pvf>, Panicked>) -> LibRes {
    match r {
        Ok(Ok(g)) => Ok(Ok(Some(g))),
        Ok(Err(e)) => Ok(Err(LibErr::Pvf(e))),
        Err(p) => Err(p),
    }
}

fn from_estimate(r: Result<Result<(), CheckError>, Panicked>) -> LibRes {
    match r {
        Ok(Ok(())) => Ok(Ok(None)),
        Ok(Err(CheckError::PredicateVerificationFailed(e))) => Ok(Err(LibErr::Pvf(e))),
        Ok(Err(e)) => Ok(Err(LibErr::Other(format!("{e:?}")))),
        Err(p) => Err(p),
    }
}

fn gas_fields(tx: &Script) -> Vec<Option<u64>> {
    tx.inputs().iter().map(|i| i.predicate_gas_used()).collect()
}

/// Judge one verification result against the per-predicate expectations.
fn judge_verify(rep: &mut Report, label: &str, res: &LibRes, exp: &[(usize, Exp)], sum_declared: Option<u64>, replay: &dyn Fn(Value) -> Value) {
    rep.eval();
    let failing = exp.iter().find(|(_, e)| *e != Exp::Ok);
    match res {
        Err(p) => {
            rep.count(&format!("host_panic|{label}"));
            rep.note(format!("{label} panicked: {}", p.text));
        }
        Ok(Ok(gas)) => {
            rep.count(&format!("{label}|accepted"));
            if let Some((i, e)) = failing {
                rep.violation(format!("C20|{label}|accepted although {}", e.what()), format!("input {i}: {}", e.what()), || replay(json!({"input": i})));
            } else if let (Some(g), Some(s)) = (gas, sum_declared) {
                if *g != s {
                    rep.violation(format!("C20|{label}|total predicate gas != sum of declared gas"), format!("reported {g}, sum of declared {s}"), || replay(json!(null)));
                } else {
                    rep.count("total_gas_checked");
                }
            }
        }
        Ok(Err(e)) => {
            rep.count(&format!("{label}|rejected"));
            let kind = err_kind(e);
            if failing.is_none() {
                rep.violation(format!("C20|{label}|rejected although every predicate is authorized|{kind}"), format!("{e:?}"), || replay(json!(null)));
            } else if let LibErr::Pvf(p) = e {
                if let Some(ix) = pvf_index(p) {
                    let named = exp.iter().find(|(i, _)| *i == ix);
                    if !matches!(named, Some((_, x)) if *x != Exp::Ok) {
                        rep.violation(format!("C20|{label}|error names an input that is authorized or is not a predicate|{kind}"), format!("{e:?}"), || replay(json!({"input": ix})));
                    }
                }
            }
        }
    }
}

/// Differential comparison of a parallel result with the sequential one.
fn compare_seq_par(rep: &mut Report, what: &str, order: &str, seq: &LibRes, par_: &LibRes, replay: &dyn Fn(Value) -> Value) {
    rep.eval();
    let (s, p) = match (seq, par_) {
        (Ok(s), Ok(p)) => (s, p),
        _ => {
            if seq.is_ok() != par_.is_ok() {
                rep.violation(format!("C20|seq-vs-par|{what}|one side panics|seq={}|par={}", res_class(seq), res_class(par_)), format!("order {order}: seq {seq:?} par {par_:?}"), || replay(json!({"order": order})));
            }
            return;
        }
    };
    match (s, p) {
        (Ok(gs), Ok(gp)) => {
            if let (Some(a), Some(b)) = (gs, gp) {
                if a != b {
                    rep.violation(format!("C20|seq-vs-par|{what}|total gas differs"), format!("order {order}: seq {a} par {b}"), || replay(json!({"order": order})));
                }
            }
            rep.count(&format!("seq_par_agree|{what}|ok"));
        }
        (Err(es), Err(ep)) => {
            let same_pred = match (es, ep) {
                (LibErr::Pvf(a), LibErr::Pvf(b)) => pvf_index(a) == pvf_index(b),
                _ => true,
            };
            if same_pred && err_kind(es) != err_kind(ep) {
                rep.violation(format!("C20|seq-vs-par|{what}|different error for the same predicate|seq={}|par={}", err_kind(es), err_kind(ep)), format!("order {order}: seq {es:?} par {ep:?}"), || replay(json!({"order": order})));
            }
            rep.count(&format!("seq_par_agree|{what}|err"));
            if !same_pred {
                rep.count(&format!("seq_par_other_predicate_reported|{what}"));
            }
        }
        _ => {
            rep.violation(format!("C20|seq-vs-par|{what}|verdict differs|seq={}|par={}", res_class(seq), res_class(par_)), format!("order {order}: seq {s:?} par {p:?}"), || replay(json!({"order": order})));
        }
    }
}

// ---------------------------------------------------------------------------------------
// one case
// ---------------------------------------------------------------------------------------

fn lens_shape(name: &str) -> String {
    name.chars().filter(|c| !c.is_ascii_digit()).collect()
}

fn signature_checks(case: &Case, rep: &mut Report, erng: &mut Rng, replay: &dyn Fn(Value) -> Value) -> Option<Checked<Script>> {
    let tx = &case.tx;
    let chain = case.cp.chain_id();
    let ns = tx.inputs().iter().filter(|i| is_signed(variant_of(i))).count();
    let np = tx.inputs().len() - ns;
    let mix = format!("S{ns}P{np}");
    // (a) transaction level
    let want = sig_oracle(tx, &chain);
    let got = guarded(|| FormatValidityChecks::check_signatures(tx, &chain));
    rep.eval();
    let mut base_ok = false;
    match &got {
        Err(p) => {
            rep.count("host_panic|check_signatures");
            rep.note(format!("check_signatures panicked: {}", p.text));
        }
        Ok(r) => {
            rep.class(format!("sig|{mix}|{}", match &want {
                Ok(()) => "accept".to_string(),
                Err((_, w)) => format!("reject: {w}"),
            }));
            match (r, &want) {
                (Ok(()), Ok(())) => {
                    rep.count("signatures_accepted");
                    base_ok = true;
                }
                (Err(_), Err(_)) => rep.count("signatures_rejected"),
                (Ok(()), Err((i, w))) => rep.violation(format!("C20|check_signatures|accepted although {w}"), format!("input {i}: {w}"), || replay(json!({"input": i}))),
                (Err(e), Ok(())) => rep.violation(format!("C20|check_signatures|rejected although every signed witness recovers to its owner and every predicate owner matches|{}", variant_name(&format!("{e:?}"))), format!("{e:?}"), || replay(json!(null))),
            }
        }
    }
    // (b) through `Checked`
    let basic = guarded(|| tx.clone().into_checked_basic(case.height, &case.cp));
    let checked = match basic {
        Ok(Ok(c)) => Some(c),
        Ok(Err(e)) => {
            rep.count(&format!("basic_rejected|{}", variant_name(&format!("{e:?}").replace("Validity(", ""))));
            None
        }
        Err(p) => {
            rep.count("host_panic|into_checked_basic");
            rep.note(format!("into_checked_basic panicked: {}", p.text));
            None
        }
    };
    if let Some(c) = &checked {
        rep.eval();
        match guarded(|| c.clone().check_signatures(&chain)) {
            Ok(Ok(c2)) => {
                if let Err((i, w)) = &want {
                    rep.violation(format!("C20|Checked::check_signatures|accepted although {w}"), format!("input {i}: {w}"), || replay(json!({"input": i})));
                } else if !c2.checks().contains(Checks::Signatures) {
                    rep.violation("C20|Checked::check_signatures|Ok without the Signatures flag", "flag missing", || replay(json!(null)));
                } else {
                    rep.count("checked_signatures_accepted");
                }
            }
            Ok(Err(e)) => {
                if want.is_ok() {
                    rep.violation(format!("C20|Checked::check_signatures|rejected although every signed witness recovers to its owner and every predicate owner matches|{}", variant_name(&format!("{e:?}").replace("Validity(", ""))), format!("{e:?}"), || replay(json!(null)));
                } else {
                    rep.count("checked_signatures_rejected");
                }
            }
            Err(p) => {
                rep.count("host_panic|Checked::check_signatures");
                rep.note(format!("Checked::check_signatures panicked: {}", p.text));
            }
        }
    }
    // (c) single-field mutations of an accepted transaction
    if base_ok {
        let mut ls = lenses(tx);
        erng.shuffle(&mut ls);
        let mut taken = 0;
        for l in ls {
            let is_wit = matches!(l.kind, LensKind::WitnessReferenced | LensKind::WitnessUnreferenced);
            if !is_wit {
                if taken >= 10 {
                    continue;
                }
                taken += 1;
            }
            let mut t = tx.clone();
            let mut lrng = Rng::derive(erng.u64(), 1, 0);
            apply_lens(&mut t, &l, &mut lrng);
            if t == *tx {
                rep.count("lens_did_not_change_value");
                continue;
            }
            let shape = lens_shape(&l.name);
            let lib = guarded(|| FormatValidityChecks::check_signatures(&t, &chain));
            let Ok(lib) = lib else {
                rep.count("host_panic|check_signatures(mutated)");
                continue;
            };
            let orc = sig_oracle(&t, &chain);
            rep.eval();
            rep.class(format!("lens|{shape}|{:?}|{}", l.kind, if lib.is_ok() { "accepted" } else { "rejected" }));
            let mrep = |d: Value| replay(json!({"lens": l.name, "mutated": hx(t.to_bytes()), "detail": d}));
            match (&lib, &orc) {
                (Ok(()), Err((i, w))) => rep.violation(format!("C20|check_signatures|accepted although {w}|mutated"), format!("after lens {}: input {i}: {w}", l.name), || mrep(json!({"input": i}))),
                (Err(e), Ok(())) => rep.violation(format!("C20|check_signatures|rejected although every signed witness recovers to its owner and every predicate owner matches|{}|mutated", variant_name(&format!("{e:?}"))), format!("after lens {}: {e:?}", l.name), || mrep(json!(null))),
                _ => {}
            }
            if ns > 0 {
                match l.kind {
                    LensKind::NonMalleable | LensKind::WitnessReferenced => {
                        if lib.is_ok() {
                            let why = if l.kind == LensKind::NonMalleable { "change of signed content still accepted" } else { "change of a referenced signature witness still accepted" };
                            rep.violation(format!("C20|mutation|{shape}|{why}"), format!("lens {}", l.name), || mrep(json!(null)));
                        } else {
                            rep.count("mutation_rejected_as_required");
                        }
                        // the same change made in place on the accepted transaction object
                        // (taken back out of its `Checked` wrapper, cached metadata and all),
                        // then checked again from the start: the signatures were made over
                        // the old content
                        if let Some(c) = &checked {
                            let mut t2: Script = c.transaction().clone();
                            let mut lrng2 = Rng::derive(0x20c, idx_hint(&l.name), 0);
                            apply_lens(&mut t2, &l, &mut lrng2);
                            if t2 != *c.transaction() {
                                let again = guarded(|| match t2.clone().into_checked_basic(case.height, &case.cp) {
                                    Ok(c2) => c2.check_signatures(&chain).map(|_| ()).map_err(|e| format!("{e:?}")),
                                    Err(e) => Err(format!("{e:?}")),
                                });
                                rep.eval();
                                match again {
                                    Ok(Ok(())) => rep.violation(
                                        format!("C20|mutation in place|{shape}|accepted transaction changed in place and checked again is still accepted"),
                                        format!("lens {} applied to the transaction inside Checked (metadata cached), then into_checked_basic + check_signatures: Ok", l.name),
                                        || mrep(json!({"in_place": true})),
                                    ),
                                    Ok(Err(_)) => rep.count("in_place_mutation_rejected_as_required"),
                                    Err(_) => rep.count("host_panic|recheck(mutated in place)"),
                                }
                            }
                        }
                    }
                    LensKind::Malleable | LensKind::WitnessUnreferenced => {
                        if let Err(e) = &lib {
                            rep.violation(format!("C20|mutation|{shape}|change outside the signed content rejected"), format!("lens {}: {e:?}", l.name), || mrep(json!(null)));
                        } else {
                            rep.count("mutation_kept_accepted_as_required");
                        }
                    }
                }
            }
        }
    }
    checked
}

struct Ctx<'a> {
    case: &'a Case,
    cpp: CheckPredicateParams,
    pool: &'a DirtyPool,
    prov: Provider,
}

/// expectations for every predicate input of `tx` from reference runs with the declared gas
fn expectations(case: &Case, tx: &Script) -> Result<(Vec<(usize, Exp)>, bool), String> {
    let mut exp = vec![];
    let mut introspects = false;
    for (i, inp) in tx.inputs().iter().enumerate() {
        if let Some(declared) = inp.predicate_gas_used() {
            let run = ref_run(tx, i, declared, &case.cp, &case.storage)?;
            introspects |= run.introspects;
            exp.push((i, expect_of(inp, &run)));
        }
    }
    Ok((exp, introspects))
}

fn outcome_class(exp: &[(usize, Exp)]) -> String {
    let mut s: Vec<String> = exp
        .iter()
        .map(|(_, e)| match e {
            Exp::Ok => "ok".to_string(),
            Exp::Owner => "owner".to_string(),
            Exp::Gas => "gas".to_string(),
            Exp::NotOne(c) => c.split(':').next().unwrap_or("").to_string(),
        })
        .collect();
    s.sort();
    s.dedup();
    if s.is_empty() { "none".into() } else { s.join("+") }
}

fn seq_verify(ctx: &Ctx, checked: &Checked<Script>) -> (LibRes, LibRes, Option<Checked<Script>>) {
    let st = &ctx.case.storage;
    let (a, c) = from_check(guarded(|| checked.clone().check_predicates(&ctx.cpp, ctx.pool.take(), st, NotSupportedEcal)));
    let b = from_module(guarded(|| predicates::check_predicates(checked, &ctx.cpp, ctx.pool.take(), st, NotSupportedEcal).map(|c| c.gas_used())));
    (a, b, c)
}

fn order_string(o: &[usize]) -> String {
    o.iter().map(|x| x.to_string()).collect::<Vec<_>>().join(",")
}

fn predicate_checks(case: &Case, checked: Checked<Script>, pool: &DirtyPool, rep: &mut Report, erng: &mut Rng, replay: &dyn Fn(Value) -> Value) {
    let tx = &case.tx;
    let ctx = Ctx { case, cpp: CheckPredicateParams::from(&case.cp), pool, prov: Provider(case.storage.clone()) };
    let ns = tx.inputs().iter().filter(|i| is_signed(variant_of(i))).count();
    let np = tx.inputs().len() - ns;
    let mix = format!("S{ns}P{np}");
    let (exp, intro_declared) = match expectations(case, tx) {
        Ok(x) => x,
        Err(e) => {
            rep.count("harness_reference_run_incomplete");
            rep.note(format!("reference run incomplete: {e}"));
            return;
        }
    };
    let sum_declared = gas_fields(tx).iter().flatten().try_fold(0u64, |a, g| a.checked_add(*g));
    let oc = outcome_class(&exp);
    for (i, e) in exp.iter() {
        rep.class(format!("predicate|{}|{}", case.kinds[*i], match e {
            Exp::NotOne(c) => c.clone(),
            other => format!("{other:?}"),
        }));
    }
    // ---- (2) sequential verification against the reference runs
    let (v_trait, v_mod, c_after) = seq_verify(&ctx, &checked);
    judge_verify(rep, "check_predicates", &v_trait, &exp, sum_declared, replay);
    judge_verify(rep, "predicates::check_predicates", &v_mod, &exp, sum_declared, replay);
    if let Some(c) = &c_after {
        if !c.checks().contains(Checks::Predicates) {
            rep.violation("C20|check_predicates|Ok without the Predicates flag", "flag missing", || replay(json!(null)));
        }
    }
    let expected_ok = exp.iter().all(|(_, e)| *e == Exp::Ok);
    rep.count(if expected_ok { "predicates_expected_accept" } else { "predicates_expected_reject" });
    // the whole pipeline
    {
        let sig_ok = sig_oracle(tx, &case.cp.chain_id()).is_ok();
        let r = guarded(|| tx.clone().into_checked_reusable_memory(case.height, &case.cp, pool.take(), &case.storage));
        rep.eval();
        match r {
            Ok(Ok(c)) => {
                if !(sig_ok && expected_ok) {
                    rep.violation(format!("C20|into_checked|fully checked although {}", if !sig_ok { "the signature oracle rejects" } else { "a predicate is not authorized" }), "into_checked returned Ok", || replay(json!(null)));
                } else if !c.checks().contains(Checks::Basic | Checks::Signatures | Checks::Predicates) {
                    rep.violation("C20|into_checked|Ok without all three check flags", format!("{}", c.checks()), || replay(json!(null)));
                } else {
                    rep.count("fully_checked");
                }
            }
            Ok(Err(e)) => {
                if sig_ok && expected_ok {
                    rep.violation(format!("C20|into_checked|rejected although signatures and predicates are authorized|{}", variant_name(&format!("{e:?}").replace("Validity(", "").replace("PredicateVerificationFailed(", ""))), format!("{e:?}"), || replay(json!(null)));
                } else {
                    rep.count("into_checked_rejected");
                }
            }
            Err(p) => {
                rep.count("host_panic|into_checked");
                rep.note(format!("into_checked panicked: {}", p.text));
            }
        }
    }
    // ---- (3) estimation, sequential
    let mut est = tx.clone();
    let e_trait = from_estimate(guarded(|| est.estimate_predicates(&ctx.cpp, pool.take(), &case.storage)));
    let mut est2 = tx.clone();
    let e_mod = from_module(guarded(|| predicates::estimate_predicates(&mut est2, &ctx.cpp, pool.take(), &case.storage, NotSupportedEcal).map(|c| c.gas_used())));
    rep.eval();
    if e_trait.is_ok() && e_mod.is_ok() && (res_class(&e_trait) != res_class(&e_mod) || gas_fields(&est) != gas_fields(&est2)) {
        rep.violation("C20|estimate_predicates|trait method and predicates::estimate_predicates disagree", format!("{e_trait:?} / {e_mod:?}"), || replay(json!(null)));
    }
    let all_ret1 = case.generous.iter().flatten().all(|r| r.end == RefEnd::Return(1));
    let owners_ok = !exp.iter().any(|(_, e)| *e == Exp::Owner);
    let intro_generous = case.generous.iter().flatten().any(|r| r.introspects);
    match &e_mod {
        Ok(Ok(total)) => {
            rep.count("estimation_ok");
            let fields = gas_fields(&est2);
            let sum_est = fields.iter().flatten().try_fold(0u64, |a, g| a.checked_add(*g));
            if let (Some(t), Some(s)) = (total, sum_est) {
                if *t != s {
                    rep.violation("C20|estimate_predicates|total gas != sum of the estimated predicate gas", format!("reported {t}, fields sum {s}"), || replay(json!(null)));
                }
            }
            // estimated value vs the gas the reference run used (informational unless the
            // verification below fails)
            if !case.tight {
                for (i, g) in fields.iter().enumerate() {
                    if let (Some(g), Some(r)) = (g, &case.generous[i]) {
                        if !r.introspects && *g != r.gas_used {
                            rep.count(if r.end == RefEnd::Return(1) { "estimated_gas_differs_from_reference|returns-1" } else { "estimated_gas_differs_from_reference|failing-predicate" });
                        }
                    }
                }
            }
            // verification of the estimated transaction
            let r = guarded(|| est2.clone().into_checked_basic(case.height, &case.cp));
            match r {
                Ok(Ok(ce)) => {
                    let (ve, _, _) = seq_verify(&ctx, &ce);
                    match expectations(case, &est2) {
                        Ok((exp_e, intro_e)) => {
                            let sum_e = gas_fields(&est2).iter().flatten().try_fold(0u64, |a, g| a.checked_add(*g));
                            judge_verify(rep, "check_predicates(estimated tx)", &ve, &exp_e, sum_e, replay);
                            rep.eval();
                            if !(all_ret1 && owners_ok) {
                                rep.count("estimate_then_verify|not applicable (a predicate does not return 1 or has a foreign owner)");
                            } else {
                                match &ve {
                                    Ok(Ok(_)) => {
                                        rep.count("estimate_then_verify_ok");
                                        if intro_generous || intro_e {
                                            rep.count("estimate_then_verify_ok|gas-introspecting");
                                        }
                                    }
                                    Ok(Err(e)) => {
                                        if intro_generous || intro_e || intro_declared {
                                            rep.violation("C20|estimate-then-verify|gas-introspecting predicate", format!("verification of the estimated transaction fails: {e:?}"), || replay(json!({"estimated": hx(est2.to_bytes())})));
                                        } else if case.tight {
                                            rep.count(&format!("unspecified_tight_budget|estimate-then-verify fails|{}", err_kind(e)));
                                        } else {
                                            rep.violation(format!("C20|estimate-then-verify|verification fails after successful estimation|{}", err_kind(e)), format!("{e:?}"), || replay(json!({"estimated": hx(est2.to_bytes())})));
                                        }
                                    }
                                    Err(_) => {}
                                }
                            }
                        }
                        Err(e) => {
                            rep.count("harness_reference_run_incomplete");
                            rep.note(format!("reference run incomplete: {e}"));
                        }
                    }
                }
                Ok(Err(e)) => {
                    if case.tight {
                        rep.count("unspecified_tight_budget|estimated tx fails the basic check");
                    } else {
                        rep.violation(format!("C20|estimate-then-verify|estimated transaction fails the basic check|{}", variant_name(&format!("{e:?}").replace("Validity(", ""))), format!("{e:?}"), || replay(json!({"estimated": hx(est2.to_bytes())})));
                    }
                }
                Err(p) => {
                    rep.count("host_panic|into_checked_basic(estimated)");
                    rep.note(format!("into_checked_basic(estimated) panicked: {}", p.text));
                }
            }
        }
        Ok(Err(e)) => rep.count(&format!("estimation_err|{}", err_kind(e))),
        Err(p) => {
            rep.count("host_panic|estimate_predicates");
            rep.note(format!("estimate_predicates panicked: {}", p.text));
        }
    }
    // ---- (4) sequential vs parallel under permuted completion orders
    let t_par = std::time::Instant::now();
    let mut scheds = vec![Sched::Identity];
    if np >= 2 {
        scheds.push(Sched::Reverse);
        scheds.push(Sched::Seeded(erng.u64()));
        if np >= 3 && erng.bool() {
            scheds.push(Sched::Seeded(erng.u64()));
        }
        if erng.chance(1, 6) {
            scheds.push(Sched::Sleep(erng.u64()));
        }
    }
    for s in scheds {
        // verification
        set_sched(s.clone());
        let _ = take_observed();
        let pv = from_module(guarded(|| block_on(predicates::check_predicates_async::<Script, NotSupportedEcal, TurnstileExec>(&checked, &ctx.cpp, ctx.pool, &ctx.prov, NotSupportedEcal)).map(|c| c.gas_used())));
        let obs = take_observed();
        let order = obs.first().map(|o| order_string(o)).unwrap_or_else(|| "-".into());
        if let Some(o) = obs.first() {
            if let Some(want) = s.order(o.len()) {
                if *o != want {
                    rep.inconclusive = Some(format!("turnstile released {o:?}, schedule asked for {want:?}"));
                }
                rep.class(format!("perm|{}|{order}", o.len()));
            } else {
                rep.class(format!("sleep-order|{}|{order}", o.len()));
            }
            rep.count("parallel_runs");
        }
        rep.class(format!("{mix}|{oc}|{}", s.kind()));
        judge_verify(rep, "check_predicates_async", &pv, &exp, sum_declared, replay);
        compare_seq_par(rep, "check_predicates", &order, &v_mod, &pv, replay);
        if s == Sched::Identity && erng.chance(1, 3) {
            let (pt, c) = from_check(guarded(|| block_on(checked.clone().check_predicates_async::<NotSupportedEcal, TurnstileExec>(&ctx.cpp, ctx.pool, &ctx.prov, NotSupportedEcal))));
            judge_verify(rep, "check_predicates_async", &pt, &exp, None, replay);
            if let Some(c) = c {
                if !c.checks().contains(Checks::Predicates) {
                    rep.violation("C20|check_predicates_async|Ok without the Predicates flag", "flag missing", || replay(json!(null)));
                }
            }
        }
        // estimation
        set_sched(s.clone());
        let mut pe = tx.clone();
        let pres = if s == Sched::Reverse {
            from_estimate(guarded(|| block_on(pe.estimate_predicates_async::<TurnstileExec>(&ctx.cpp, ctx.pool, &ctx.prov))))
        } else {
            from_module(guarded(|| block_on(predicates::estimate_predicates_async::<Script, NotSupportedEcal, TurnstileExec>(&mut pe, &ctx.cpp, ctx.pool, &ctx.prov, NotSupportedEcal)).map(|c| c.gas_used())))
        };
        let obs = take_observed();
        let order = obs.first().map(|o| order_string(o)).unwrap_or_else(|| "-".into());
        if case.tight {
            rep.count(if res_class(&pres) == res_class(&e_mod) && gas_fields(&pe) == gas_fields(&est2) { "unspecified_tight_budget|seq and par estimation agree" } else { "unspecified_tight_budget|seq and par estimation differ" });
        } else {
            compare_seq_par(rep, "estimate_predicates", &order, &e_mod, &pres, replay);
            if matches!((&e_mod, &pres), (Ok(Ok(_)), Ok(Ok(_)))) && gas_fields(&pe) != gas_fields(&est2) {
                rep.violation("C20|seq-vs-par|estimate_predicates|estimated predicate gas differs", format!("order {order}: seq {:?} par {:?}", gas_fields(&est2), gas_fields(&pe)), || replay(json!({"order": order})));
            }
        }
    }
    set_sched(Sched::Identity);
    rep.count_n("wall_us|predicate checks, parallel part", t_par.elapsed().as_micros() as u64);
    if np >= 2 || (np == 1 && erng.chance(1, 4)) {
        rep.sample(|| {
        json!({
            "mix": mix, "tx": hx(tx.to_bytes()), "info": case.info, "defects": case.defects,
            "predicates": exp.iter().map(|(i, e)| json!({
                "input": i, "kind": case.kinds[*i], "declared_gas": tx.inputs()[*i].predicate_gas_used(),
                "reference_max_limit": case.generous[*i].as_ref().map(|r| json!({"end": r.end.class(), "gas_used": r.gas_used, "steps": r.steps, "introspects": r.introspects})),
                "expected": e.what(),
                "code": prog::disasm(tx.inputs()[*i].input_predicate().unwrap_or(&[]), 12),
            })).collect::<Vec<_>>(),
            "check_predicates": res_class(&v_mod), "estimate_predicates": res_class(&e_mod),
        })
        });
    }
}

fn one_case(seed: u64, worker: u64, idx: u64, pool: &DirtyPool, rep: &mut Report) {
    let t0 = std::time::Instant::now();
    let case = match gen_case(seed, worker, idx) {
        Ok(c) => c,
        Err(e) => {
            rep.count("harness_generation_incomplete");
            rep.note(format!("generation incomplete: {e}"));
            return;
        }
    };
    let t1 = std::time::Instant::now();
    let mut erng = Rng::derive(seed ^ (STREAM_EVAL << 32), worker, idx);
    let txhex = hx(case.tx.to_bytes());
    let info = case.info.clone();
    let replay = move |detail: Value| json!({"seed": seed, "worker": worker, "index": idx, "tx": txhex, "info": info, "detail": detail});
    let checked = signature_checks(&case, rep, &mut erng, &replay);
    let t2 = std::time::Instant::now();
    rep.count("transactions");
    if let Some(c) = checked {
        predicate_checks(&case, c, pool, rep, &mut erng, &replay);
    }
    let t3 = std::time::Instant::now();
    rep.count_n("wall_us|generation (incl. reference runs)", (t1 - t0).as_micros() as u64);
    rep.count_n("wall_us|signature checks", (t2 - t1).as_micros() as u64);
    rep.count_n("wall_us|predicate checks", (t3 - t2).as_micros() as u64);
}

pub fn run(cfg: &Cfg) -> Report {
    let rule = "generated script transactions with 1..8 inputs (signed coin/message inputs with shared, duplicated, permuted and defective witnesses; predicate coin/message inputs with generated and hand-written programs). check_signatures Ok iff every referenced witness is 64 bytes recovering (Signature::recover called by the oracle, sha256 of the key) to the input owner over the id and every predicate owner equals sha256('FUEL' || reference code root); every single-field mutation of an accepted transaction judged again (signed content / referenced witness => must fail, malleable field / unreferenced witness => stays Ok), signed-content mutations also applied in place to the transaction taken out of its Checked wrapper (cached metadata) and checked again from the start. check_predicates Ok iff for every predicate input: owner matches, harness-side reference run (own interpreter, init_predicate, public execute loop) with limit = declared gas returns 1 with 0 gas left; total gas = sum of declared. estimate then verify: if every predicate returns 1 under the maximum limit, verification of the estimated tx succeeds. check/estimate_predicates_async on a one-thread-per-task executor releasing completions in identity/reverse/seed-chosen permutations (and a micro-sleep mode) over a pool of dirty memories must agree with the sequential functions. class = (input mix, predicate outcome class, completion-order class), lens classes, per-program-kind outcome classes, distinct permutations";
    if let Some(r) = &cfg.replay {
        let mut rep = Report::new();
        let seed = r["seed"].as_u64().unwrap_or(cfg.seed);
        let (w, i) = (r["worker"].as_u64().unwrap_or(0), r["index"].as_u64().unwrap_or(0));
        let pool = DirtyPool::new();
        one_case(seed, w, i, &pool, &mut rep);
        rep.rule = rule.into();
        return rep;
    }
    let total = cfg.budget(3000, 150_000);
    let per = total.div_ceil(cfg.threads.max(1) as u64);
    let mut rep = par(cfg.threads, |w| {
        let mut rep = Report::new();
        let pool = DirtyPool::new();
        for k in 0..per {
            one_case(cfg.seed, w as u64, k, &pool, &mut rep);
        }
        rep.count_n("pool_memories_handed_out", pool.handed.load(Ordering::Relaxed));
        rep.count_n("pool_memories_reused_dirty", pool.reused.load(Ordering::Relaxed));
        rep
    });
    let perms = rep.classes.iter().filter(|c| c.starts_with("perm|")).count() as u64;
    rep.count_n("distinct_permutations", perms);
    rep.rule = rule.into();
    rep.assume("transaction id computed by the library on a metadata-free transaction (C03); Signature::recover/sign (C16/C17); predicate memory range from RuntimePredicate::from_tx cross-checked against the reference layout (C04); the interpreter's instruction semantics (Group E monitors) - the orchestration around them (owner check, exact-gas rule, result mapping, gas write-back, cumulative gas, sequential/parallel plumbing) is what is judged");
    rep.assume("estimation under a per-transaction gas budget that binds (6% of the cases) is not judged: estimation deliberately ignores OutOfGas (CHANGELOG #917) and the sequential and parallel budgets differ by design; such cases are counted as unspecified_tight_budget|...");
    rep.gate("signatures_accepted", rep.counter("signatures_accepted"), 100);
    rep.gate("signatures_rejected", rep.counter("signatures_rejected"), 100);
    rep.gate("mutations_judged", rep.counter("mutation_rejected_as_required") + rep.counter("mutation_kept_accepted_as_required"), 500);
    rep.gate("predicates_accepted", rep.counter("check_predicates|accepted"), 100);
    rep.gate("predicates_rejected", rep.counter("check_predicates|rejected"), 100);
    rep.gate("estimate_then_verify_ok", rep.counter("estimate_then_verify_ok"), 100);
    rep.gate("parallel_runs", rep.counter("parallel_runs"), 500);
    rep.gate("distinct_permutations", perms, 20);
    rep
}
