//! C36 Storage reads honour the read contract for every offset and length.
//!
//! Part A: `StorageRead::{read_exact, read_zerofill, read_alloc}` and
//! `StorageSize::size_of_value` of `MemoryStorage` for the three byte tables, against
//! plain slice semantics, exhaustively over (value len, offset, buffer len) in a cube plus
//! boundary offsets up to `usize::MAX`.
//! Part B: the instructions built on these reads (CCP, BLDD, LDC modes 0/1/2, CSIZ,
//! BSIZ): single-instruction bench on an initialised script VM (memory before/after is
//! compared completely) and a sample of the same cases as real scripts through
//! `Interpreter::transact`.
use crate::{
    Cfg,
    Panicked,
    Report,
    Rng,
    guarded,
    hx,
    par,
    unhx,
};
use fuel_asm::{
    GTFArgs,
    Instruction,
    PanicReason,
    RegId,
    op,
};
use fuel_storage::{
    StorageRead,
    StorageReadError,
    StorageSize,
    StorageWrite,
};
use fuel_tx::{
    ConsensusParameters,
    Input,
    Output,
    Receipt,
    Script,
    TransactionBuilder,
    TxPointer,
    UtxoId,
};
use fuel_types::{
    BlobId,
    Bytes32,
    ContractId,
};
use fuel_vm::{
    checked_transaction::{
        Ready,
        builder::TransactionBuilderExt,
    },
    error::InterpreterError,
    interpreter::{
        Interpreter,
        InterpreterParams,
        MemoryInstance,
    },
    state::ExecuteState,
    storage::{
        BlobData,
        ContractsRawCode,
        ContractsState,
        ContractsStateKey,
        MemoryStorage,
    },
};
use serde_json::{
    Value,
    json,
};

const MEM: u64 = 1 << 26;
const FILL: u8 = 0xAA;

// ===================================================================== part A

#[derive(Clone, Copy, PartialEq, Debug)]
enum Table {
    Code,
    State,
    Blob,
}

const TABLES: [Table; 3] = [Table::Code, Table::State, Table::Blob];

impl Table {
    fn name(self) -> &'static str {
        match self {
            Table::Code => "ContractsRawCode",
            Table::State => "ContractsState",
            Table::Blob => "BlobData",
        }
    }
    fn from_name(s: &str) -> Option<Table> {
        TABLES.iter().copied().find(|t| t.name() == s)
    }
}

fn key32(tag: u8) -> [u8; 32] {
    let mut k = [tag; 32];
    k[0] = 0xC3;
    k[31] = tag.wrapping_mul(7).wrapping_add(1);
    k
}

fn state_key(tag: u8) -> ContractsStateKey {
    ContractsStateKey::new(&ContractId::from(key32(0x11)), &Bytes32::from(key32(tag)))
}

/// value bytes: never 0x00 and never the buffer fill byte
fn value_bytes(salt: usize, len: usize) -> Vec<u8> {
    (0..len).map(|i| ((i * 37 + salt * 11 + 3) % 127) as u8 + 1).collect()
}

fn put(st: &mut MemoryStorage, t: Table, tag: u8, v: &[u8]) {
    match t {
        Table::Code => StorageWrite::<ContractsRawCode>::write_bytes(st, &ContractId::from(key32(tag)), v),
        Table::State => StorageWrite::<ContractsState>::write_bytes(st, &state_key(tag), v),
        Table::Blob => StorageWrite::<BlobData>::write_bytes(st, &BlobId::from(key32(tag)), v),
    }
    .expect("infallible")
}

type ReadRes = Result<Result<usize, StorageReadError>, Panicked>;

fn do_read(st: &MemoryStorage, t: Table, tag: u8, zerofill: bool, offset: usize, buf: &mut [u8]) -> ReadRes {
    guarded(|| {
        let r = match (t, zerofill) {
            (Table::Code, false) => StorageRead::<ContractsRawCode>::read_exact(st, &ContractId::from(key32(tag)), offset, buf),
            (Table::Code, true) => StorageRead::<ContractsRawCode>::read_zerofill(st, &ContractId::from(key32(tag)), offset, buf),
            (Table::State, false) => StorageRead::<ContractsState>::read_exact(st, &state_key(tag), offset, buf),
            (Table::State, true) => StorageRead::<ContractsState>::read_zerofill(st, &state_key(tag), offset, buf),
            (Table::Blob, false) => StorageRead::<BlobData>::read_exact(st, &BlobId::from(key32(tag)), offset, buf),
            (Table::Blob, true) => StorageRead::<BlobData>::read_zerofill(st, &BlobId::from(key32(tag)), offset, buf),
        };
        r.expect("MemoryStorage reads are infallible")
    })
}

fn do_alloc(st: &MemoryStorage, t: Table, tag: u8) -> Result<Option<Vec<u8>>, Panicked> {
    guarded(|| {
        match t {
            Table::Code => StorageRead::<ContractsRawCode>::read_alloc(st, &ContractId::from(key32(tag))),
            Table::State => StorageRead::<ContractsState>::read_alloc(st, &state_key(tag)),
            Table::Blob => StorageRead::<BlobData>::read_alloc(st, &BlobId::from(key32(tag))),
        }
        .expect("infallible")
    })
}

fn do_size(st: &MemoryStorage, t: Table, tag: u8) -> Result<Option<usize>, Panicked> {
    guarded(|| {
        match t {
            Table::Code => StorageSize::<ContractsRawCode>::size_of_value(st, &ContractId::from(key32(tag))),
            Table::State => StorageSize::<ContractsState>::size_of_value(st, &state_key(tag)),
            Table::Blob => StorageSize::<BlobData>::size_of_value(st, &BlobId::from(key32(tag))),
        }
        .expect("infallible")
    })
}

/// relation of `[offset, offset+len)` to a value of `vlen` bytes
fn relation(vlen: u64, offset: u64, len: u64) -> &'static str {
    if offset > vlen {
        "offset>len"
    } else if offset == vlen {
        "offset==len"
    } else {
        match offset.checked_add(len) {
            Some(e) if e < vlen => "inside",
            Some(e) if e == vlen => "touching end",
            _ => "partial overlap",
        }
    }
}

const TARGET: u8 = 0x21;
const DECOY_A: u8 = 0x20;
const DECOY_B: u8 = 0x22;
const MISSING: u8 = 0x23;

fn storage_for(t: Table, value: &[u8]) -> MemoryStorage {
    let mut st = MemoryStorage::default();
    // neighbours with different contents: a read must come from the requested key
    put(&mut st, t, DECOY_A, &vec![0x55; value.len() + 3]);
    put(&mut st, t, TARGET, value);
    put(&mut st, t, DECOY_B, &vec![0x66; value.len().saturating_sub(1)]);
    // the same key bytes in the other tables hold something else
    for o in TABLES {
        if o != t {
            put(&mut st, o, TARGET, &vec![0x77; value.len() + 1]);
        }
    }
    st
}

/// one judged read; returns false on a violation
fn check_read(rep: &mut Report, st: &MemoryStorage, t: Table, value: &[u8], zerofill: bool, offset: usize, blen: usize) {
    let vlen = value.len();
    let method = if zerofill { "read_zerofill" } else { "read_exact" };
    let rel = relation(vlen as u64, offset as u64, blen as u64);
    let mut buf = vec![FILL; blen];
    let got = do_read(st, t, TARGET, zerofill, offset, &mut buf);
    rep.eval();
    rep.class(format!("{}|{method}|{rel}{}", t.name(), if blen == 0 { "|empty buffer" } else { "" }));
    let replay = || json!({"kind": "read", "table": t.name(), "method": method, "value": hx(value), "offset": offset as u64, "buffer_len": blen as u64});
    let end_in = offset.checked_add(blen).map(|e| e <= vlen).unwrap_or(false);
    let want_ok = if zerofill { offset <= vlen } else { end_in };
    let sig = |what: &str| format!("C36|{}|{method}|{rel}|{what}", t.name());
    match got {
        Err(p) => rep.violation(sig("panic"), format!("{method}(offset={offset}, buf {blen}) on a {vlen}-byte value panicked: {}", p.text), replay),
        Ok(Err(StorageReadError::KeyNotFound)) => rep.violation(sig("KeyNotFound for a stored key"), format!("{method}(offset={offset}, buf {blen}) on a {vlen}-byte value"), replay),
        Ok(Err(StorageReadError::OutOfBounds)) => {
            if want_ok {
                rep.violation(sig("OutOfBounds but the contract says Ok"), format!("{method}(offset={offset}, buf {blen}) on a {vlen}-byte value = OutOfBounds"), replay);
            } else if buf.iter().any(|b| *b != FILL) {
                rep.count("note_buffer_modified_on_error");
            }
        }
        Ok(Ok(n)) => {
            if !want_ok {
                rep.violation(sig("Ok but the contract says OutOfBounds"), format!("{method}(offset={offset}, buf {blen}) on a {vlen}-byte value = Ok({n}), buffer {}", hx(&buf[..blen.min(48)])), replay);
                return;
            }
            if n != vlen {
                rep.violation(sig("returned length != value length"), format!("{method}(offset={offset}, buf {blen}) on a {vlen}-byte value = Ok({n})"), replay);
            }
            // slice semantics
            let avail = vlen - offset;
            let ncopy = avail.min(blen);
            if buf[..ncopy] != value[offset..offset + ncopy] {
                rep.violation(sig("copied bytes differ"), format!("{method}(offset={offset}, buf {blen}) on a {vlen}-byte value: got {} want {}", hx(&buf[..ncopy.min(48)]), hx(&value[offset..offset + ncopy.min(48)])), replay);
            } else if buf[ncopy..].iter().any(|b| *b != 0) {
                rep.violation(sig("rest not zero-filled"), format!("{method}(offset={offset}, buf {blen}) on a {vlen}-byte value: tail {}", hx(&buf[ncopy..][..(blen - ncopy).min(48)])), replay);
            }
        }
    }
}

fn check_key_level(rep: &mut Report, st: &MemoryStorage, t: Table, value: &[u8]) {
    let vlen = value.len();
    let replay = || json!({"kind": "key", "table": t.name(), "value": hx(value)});
    rep.eval();
    rep.class(format!("{}|read_alloc+size_of_value|present", t.name()));
    match do_alloc(st, t, TARGET) {
        Ok(Some(v)) if v == value => {}
        other => rep.violation(format!("C36|{}|read_alloc|value differs", t.name()), format!("read_alloc of a {vlen}-byte value = {:?}", other.map(|o| o.map(hx))), replay),
    }
    match do_size(st, t, TARGET) {
        Ok(Some(n)) if n == vlen => {}
        other => rep.violation(format!("C36|{}|size_of_value|!= value length", t.name()), format!("size_of_value of a {vlen}-byte value = {other:?}"), replay),
    }
    rep.eval();
    rep.class(format!("{}|missing key", t.name()));
    match do_alloc(st, t, MISSING) {
        Ok(None) => {}
        other => rep.violation(format!("C36|{}|read_alloc|missing key not None", t.name()), format!("{:?}", other.map(|o| o.map(hx))), replay),
    }
    match do_size(st, t, MISSING) {
        Ok(None) => {}
        other => rep.violation(format!("C36|{}|size_of_value|missing key not None", t.name()), format!("{other:?}"), replay),
    }
    for zerofill in [false, true] {
        for (offset, blen) in [(0usize, 0usize), (0, 1), (0, vlen), (vlen, 0), (vlen + 1, 3), (usize::MAX, 0)] {
            let mut buf = vec![FILL; blen];
            let got = do_read(st, t, MISSING, zerofill, offset, &mut buf);
            rep.eval();
            match got {
                Ok(Err(StorageReadError::KeyNotFound)) => {}
                other => rep.violation(
                    format!("C36|{}|{}|missing key: not KeyNotFound", t.name(), if zerofill { "read_zerofill" } else { "read_exact" }),
                    format!("offset {offset}, buffer {blen}: {other:?}"),
                    replay,
                ),
            }
        }
    }
}

fn boundary_offsets(vlen: usize, blen: usize) -> Vec<usize> {
    let mut v = vec![
        vlen + 1,
        vlen + 2,
        u32::MAX as usize - 1,
        u32::MAX as usize,
        u32::MAX as usize + 1,
        (u32::MAX as usize + 1).wrapping_add(vlen),
        1 << 63,
        (1 << 63) + vlen,
        usize::MAX - 1,
        usize::MAX,
        usize::MAX - blen,
        (usize::MAX - blen).wrapping_add(1),
        (usize::MAX - blen).wrapping_sub(1),
        usize::MAX - vlen,
        usize::MAX / 2,
    ];
    v.sort();
    v.dedup();
    v
}

fn part_a(cfg: &Cfg, worker: usize) -> Report {
    let mut rep = Report::new();
    let cube = if cfg.thorough { 40usize } else { 16 };
    // larger values around powers of two (worklist shared by all workers round-robin)
    let big_lens: &[usize] = if cfg.thorough {
        &[41, 47, 48, 63, 64, 65, 127, 128, 129, 255, 256, 257, 1023, 1024, 1025, 4095, 4096, 4097, 16383, 16384, 16385, 65536]
    } else {
        &[24, 31, 32, 33, 40, 63, 64, 65, 255, 256, 257, 1024, 16384, 16385]
    };
    let mut items: Vec<(Table, usize, bool)> = vec![];
    for t in TABLES {
        for vlen in 0..=cube {
            items.push((t, vlen, true));
        }
        for &vlen in big_lens {
            items.push((t, vlen, false));
        }
    }
    for (i, (t, vlen, exhaustive)) in items.into_iter().enumerate() {
        if i % cfg.threads.max(1) != worker {
            continue;
        }
        let value = value_bytes(vlen + t as usize * 3, vlen);
        let st = storage_for(t, &value);
        check_key_level(&mut rep, &st, t, &value);
        if exhaustive {
            for offset in 0..=cube {
                for blen in 0..=cube {
                    check_read(&mut rep, &st, t, &value, false, offset, blen);
                    check_read(&mut rep, &st, t, &value, true, offset, blen);
                }
            }
            rep.count("cube_values");
        } else {
            let near = |x: usize| [x.saturating_sub(9), x.saturating_sub(8), x.saturating_sub(1), x, x + 1, x + 7, x + 8];
            let mut offs: Vec<usize> = vec![0, 1, 7, 8, 9, vlen / 2];
            offs.extend(near(vlen));
            let mut lens: Vec<usize> = vec![0, 1, 7, 8, 9, vlen / 2, 2 * vlen + 1];
            lens.extend(near(vlen));
            offs.sort();
            offs.dedup();
            lens.sort();
            lens.dedup();
            for &offset in &offs {
                for &blen in &lens {
                    check_read(&mut rep, &st, t, &value, false, offset, blen);
                    check_read(&mut rep, &st, t, &value, true, offset, blen);
                    // offset + len == value len exactly, and one more
                    if offset <= vlen {
                        check_read(&mut rep, &st, t, &value, false, offset, vlen - offset);
                        check_read(&mut rep, &st, t, &value, false, offset, vlen - offset + 1);
                        check_read(&mut rep, &st, t, &value, true, offset, vlen - offset + 1);
                    }
                }
            }
            rep.count("large_values");
        }
        for blen in [0usize, 1, 8, 40] {
            for offset in boundary_offsets(vlen, blen) {
                check_read(&mut rep, &st, t, &value, false, offset, blen);
                check_read(&mut rep, &st, t, &value, true, offset, blen);
                rep.count("boundary_offset_reads");
            }
        }
        if vlen == 5 {
            rep.sample(|| json!({"part": "storage reads", "table": t.name(), "value": hx(&value),
                "read_exact(offset 2, buf 3)": format!("{:?}", { let mut b = vec![FILL; 3]; let r = do_read(&st, t, TARGET, false, 2, &mut b); (r.ok(), hx(&b)) }),
                "read_zerofill(offset 5, buf 4)": format!("{:?}", { let mut b = vec![FILL; 4]; let r = do_read(&st, t, TARGET, true, 5, &mut b); (r.ok(), hx(&b)) }),
                "read_zerofill(offset 6, buf 4)": format!("{:?}", { let mut b = vec![FILL; 4]; let r = do_read(&st, t, TARGET, true, 6, &mut b); (r.ok(), hx(&b)) })}));
        }
    }
    rep
}

// ===================================================================== part B

type Vm = Interpreter<MemoryInstance, MemoryStorage, Script>;

#[derive(Clone, Copy, PartialEq, Debug)]
enum Opc {
    Ccp,
    Bldd,
    Ldc0,
    Ldc1,
    Ldc2,
    Csiz,
    Bsiz,
}

const OPCS: [Opc; 7] = [Opc::Ccp, Opc::Bldd, Opc::Ldc0, Opc::Ldc1, Opc::Ldc2, Opc::Csiz, Opc::Bsiz];

impl Opc {
    fn name(self) -> &'static str {
        match self {
            Opc::Ccp => "CCP",
            Opc::Bldd => "BLDD",
            Opc::Ldc0 => "LDC(0,contract)",
            Opc::Ldc1 => "LDC(1,blob)",
            Opc::Ldc2 => "LDC(2,memory)",
            Opc::Csiz => "CSIZ",
            Opc::Bsiz => "BSIZ",
        }
    }
    fn from_name(s: &str) -> Option<Opc> {
        OPCS.iter().copied().find(|o| o.name() == s)
    }
    fn is_contract(self) -> bool {
        matches!(self, Opc::Ccp | Opc::Ldc0 | Opc::Csiz)
    }
    fn is_blob(self) -> bool {
        matches!(self, Opc::Bldd | Opc::Ldc1 | Opc::Bsiz)
    }
    fn is_ldc(self) -> bool {
        matches!(self, Opc::Ldc0 | Opc::Ldc1 | Opc::Ldc2)
    }
}

#[derive(Clone, Copy, PartialEq, Debug)]
enum Fault {
    None,
    /// the object is not in storage (a contract id is still among the inputs)
    Absent,
    /// the contract exists but is not among the transaction inputs
    NotInInputs,
    /// LDC with $ssp != $sp
    NonEmptyStack,
    /// LDC with mode immediate 3
    BadMode,
}

impl Fault {
    fn name(self) -> &'static str {
        match self {
            Fault::None => "none",
            Fault::Absent => "absent",
            Fault::NotInInputs => "not in inputs",
            Fault::NonEmptyStack => "non-empty stack",
            Fault::BadMode => "bad mode",
        }
    }
    fn from_name(s: &str) -> Option<Fault> {
        [Fault::None, Fault::Absent, Fault::NotInInputs, Fault::NonEmptyStack, Fault::BadMode]
            .into_iter()
            .find(|f| f.name() == s)
    }
}

#[derive(Clone, Debug)]
struct Case {
    opc: Opc,
    /// contract code / blob bytes / (LDC mode 2) the source memory contents
    obj: Vec<u8>,
    fault: Fault,
    offset: u64,
    len: u64,
    /// CCP/BLDD destination in the heap (else in the stack)
    heap_dst: bool,
    /// destination area pre-filled with 0xAA (bench only)
    dirty: bool,
}

impl Case {
    fn to_json(&self, mode: &str) -> Value {
        json!({"kind": "instruction", "mode": mode, "opcode": self.opc.name(), "object": hx(&self.obj),
               "fault": self.fault.name(), "offset": self.offset, "len": self.len,
               "heap_dst": self.heap_dst, "dirty": self.dirty})
    }
    fn from_json(v: &Value) -> Option<Case> {
        Some(Case {
            opc: Opc::from_name(v.get("opcode")?.as_str()?)?,
            obj: unhx(v.get("object")?.as_str()?),
            fault: Fault::from_name(v.get("fault")?.as_str()?)?,
            offset: v.get("offset")?.as_u64()?,
            len: v.get("len")?.as_u64()?,
            heap_dst: v.get("heap_dst")?.as_bool()?,
            dirty: v.get("dirty")?.as_bool()?,
        })
    }
    fn class(&self, outcome: &str) -> String {
        let rel = if matches!(self.opc, Opc::Csiz | Opc::Bsiz) {
            "size"
        } else {
            relation(self.obj.len() as u64, self.offset, self.len)
        };
        format!(
            "{}|{rel}|len%8={}|{}|{outcome}",
            self.opc.name(),
            self.len % 8,
            if self.fault != Fault::None {
                self.fault.name()
            } else if self.opc.is_ldc() || matches!(self.opc, Opc::Csiz | Opc::Bsiz) {
                "-"
            } else if self.heap_dst {
                "heap"
            } else {
                "stack"
            },
        )
    }
}

fn pad8(x: u64) -> u64 {
    x.div_ceil(8) * 8
}

#[derive(Clone, Copy, PartialEq, Debug)]
enum ExpByte {
    Must(u8),
    /// LDC modes 0/1 copy the padded length from the object: a padding byte that still
    /// lies inside the object may be the object's byte (implementation) or zero (a
    /// literal reading of "zero padding"); anything else is wrong
    ZeroOr(u8),
}

enum Expect {
    /// destination bytes (CCP/BLDD: `len`, LDC: `pad8(len)`) or the size register
    Copy(Vec<ExpByte>),
    Size(u64),
    Panic(PanicReason),
    /// not specified with certainty: counted only
    Unspecified(&'static str),
}

fn expect(c: &Case) -> Expect {
    match c.fault {
        Fault::Absent => {
            return if c.opc.is_contract() {
                Expect::Panic(PanicReason::ContractNotFound)
            } else if c.opc.is_blob() {
                Expect::Panic(PanicReason::BlobNotFound)
            } else {
                Expect::Unspecified("absent object for LDC mode 2")
            };
        }
        Fault::NotInInputs => {
            return if c.opc.is_contract() {
                Expect::Panic(PanicReason::ContractNotInInputs)
            } else {
                Expect::Unspecified("inputs check applies to contracts only")
            };
        }
        Fault::NonEmptyStack => {
            return if c.opc.is_ldc() { Expect::Panic(PanicReason::ExpectedUnallocatedStack) } else { Expect::Unspecified("LDC only") };
        }
        Fault::BadMode => {
            return if c.opc.is_ldc() { Expect::Panic(PanicReason::InvalidImmediateValue) } else { Expect::Unspecified("LDC only") };
        }
        Fault::None => {}
    }
    match c.opc {
        Opc::Csiz | Opc::Bsiz => Expect::Size(c.obj.len() as u64),
        _ => {
            if c.len > (1 << 20) {
                return Expect::Unspecified("large length (memory limits decide)");
            }
            if c.opc == Opc::Ldc2 && c.offset.checked_add(c.len).map(|e| e > c.obj.len() as u64).unwrap_or(true) {
                return Expect::Unspecified("LDC mode 2 source beyond the prepared bytes");
            }
            let n = if c.opc.is_ldc() { pad8(c.len) } else { c.len };
            let at = |i: u64| c.offset.checked_add(i).and_then(|s| usize::try_from(s).ok()).and_then(|s| c.obj.get(s)).copied();
            Expect::Copy(
                (0..n)
                    .map(|i| {
                        if i < c.len {
                            ExpByte::Must(at(i).unwrap_or(0))
                        } else {
                            match (c.opc, at(i)) {
                                (Opc::Ldc2, _) | (_, None) => ExpByte::Must(0),
                                (_, Some(b)) => ExpByte::ZeroOr(b),
                            }
                        }
                    })
                    .collect(),
            )
        }
    }
}

fn slot_contract(k: u8) -> ContractId {
    ContractId::from(key32(0x40 + k))
}
fn slot_blob(k: u8) -> BlobId {
    BlobId::from(key32(0x60 + k))
}
const SLOTS: u8 = 4;
/// among the inputs, never stored
fn absent_contract() -> ContractId {
    ContractId::from(key32(0x50))
}
/// stored, never among the inputs
fn outsider_contract() -> ContractId {
    ContractId::from(key32(0x51))
}
fn absent_blob() -> BlobId {
    BlobId::from(key32(0x70))
}

fn params() -> ConsensusParameters {
    ConsensusParameters::standard()
}

/// contract inputs of the bench transaction: every slot and the never-stored id
fn bench_inputs() -> Vec<ContractId> {
    let mut ids: Vec<ContractId> = (0..SLOTS).map(slot_contract).collect();
    ids.push(absent_contract());
    ids
}

fn build_tx(script: Vec<u8>, data: Vec<u8>, ids: &[ContractId]) -> Ready<Script> {
    let mut b = TransactionBuilder::script(script, data);
    b.script_gas_limit(2_000_000);
    for (i, id) in ids.iter().enumerate() {
        b.add_input(Input::contract(
            UtxoId::new(Bytes32::from(key32(i as u8)).into(), i as u16),
            Bytes32::zeroed(),
            Bytes32::zeroed(),
            TxPointer::default(),
            *id,
        ));
        b.add_output(Output::contract(i as u16, Bytes32::zeroed(), Bytes32::zeroed()));
    }
    b.add_fee_input();
    b.finalize_checked(Default::default()).test_into_ready()
}

fn new_vm() -> Vm {
    Interpreter::with_storage(MemoryInstance::new(), MemoryStorage::default(), InterpreterParams::new(0, &params()))
}

/// store the case's object; returns the 32-byte id the instruction is given
fn install(vm: &mut Vm, c: &Case, slot: u8) -> [u8; 32] {
    let st: &mut MemoryStorage = vm.as_mut();
    // an outsider contract always exists
    StorageWrite::<ContractsRawCode>::write_bytes(st, &outsider_contract(), &c.obj).expect("infallible");
    if c.opc.is_contract() {
        match c.fault {
            Fault::Absent => *absent_contract(),
            Fault::NotInInputs => *outsider_contract(),
            _ => {
                let id = slot_contract(slot);
                StorageWrite::<ContractsRawCode>::write_bytes(st, &id, &c.obj).expect("infallible");
                // the blob with the same id bytes holds something else
                StorageWrite::<BlobData>::write_bytes(st, &BlobId::from(*id), &[0x99; 5]).expect("infallible");
                *id
            }
        }
    } else if c.opc.is_blob() {
        match c.fault {
            Fault::Absent => *absent_blob(),
            _ => {
                let id = slot_blob(slot);
                StorageWrite::<BlobData>::write_bytes(st, &id, &c.obj).expect("infallible");
                StorageWrite::<ContractsRawCode>::write_bytes(st, &ContractId::from(*id), &[0x98; 7]).expect("infallible");
                *id
            }
        }
    } else {
        [0u8; 32]
    }
}

fn interp_reason<E>(e: &InterpreterError<E>) -> Option<PanicReason> {
    match e {
        InterpreterError::PanicInstruction(pi) => Some(*pi.reason()),
        InterpreterError::Panic(r) => Some(*r),
        _ => None,
    }
}

const R_A: usize = 0x10;
const R_B: usize = 0x11;
const R_C: usize = 0x12;
const R_D: usize = 0x13;
const R_OUT: usize = 0x16;
const MARGIN: u64 = 24;

fn reg(r: RegId) -> usize {
    r.to_u8() as usize
}

#[derive(Debug)]
#[allow(dead_code)]
enum Outcome {
    Done,
    Panic(PanicReason),
    Other(String),
}

struct Observed {
    outcome: Outcome,
    /// where the destination bytes are expected
    dst: u64,
    before: Option<MemoryInstance>,
    regs_before: Vec<u64>,
    regs_after: Vec<u64>,
}

/// single-instruction bench on an initialised script VM
fn run_bench(vm: &mut Vm, ready: &Ready<Script>, c: &Case, slot: u8) -> Result<Observed, String> {
    let id = install(vm, c, slot);
    vm.init_script(ready.clone()).map_err(|e| format!("init_script: {e:?}"))?;
    let base = vm.registers()[reg(RegId::SSP)];
    if vm.registers()[reg(RegId::SP)] != base {
        return Err("ssp != sp after init".into());
    }
    {
        let regs = vm.registers_mut();
        regs[reg(RegId::CGAS)] = 1 << 50;
        regs[reg(RegId::GGAS)] = 1 << 50;
    }
    let n = if c.opc.is_ldc() { pad8(c.len) } else { c.len };
    let fill = if c.dirty { FILL } else { 0 };
    let dst;
    let (mut ra, mut rc, mut rd) = (0u64, 0u64, 0u64);
    let rb;
    let e = |r: PanicReason| format!("bench setup: {r:?}");
    if c.opc.is_ldc() {
        // id (and the mode-2 source) live in the heap, the stack above $ssp is dirtied
        let src_len = if c.opc == Opc::Ldc2 { c.obj.len() as u64 } else { 0 };
        vm.allocate(32 + src_len + 8).map_err(|x| format!("allocate: {x:?}"))?;
        let hp = vm.registers()[reg(RegId::HP)];
        vm.memory_mut().write_noownerchecks(hp, 32usize).map_err(e)?.copy_from_slice(&id);
        if c.opc == Opc::Ldc2 {
            vm.memory_mut().write_noownerchecks(hp + 32, c.obj.len()).map_err(e)?.copy_from_slice(&c.obj);
        }
        if c.dirty {
            vm.memory_mut().grow_stack(base + n + MARGIN).map_err(e)?;
            vm.memory_mut().write_noownerchecks(base, (n + MARGIN) as usize).map_err(e)?.fill(FILL);
        }
        dst = base;
        if c.opc == Opc::Ldc2 {
            // rA + rB is the source address: split the offset between the two
            ra = hp + 32 + c.offset / 2;
            rb = c.offset - c.offset / 2;
        } else {
            ra = hp;
            rb = c.offset;
        }
        rc = c.len;
        if c.fault == Fault::NonEmptyStack {
            vm.memory_mut().grow_stack(base + 8).map_err(e)?;
            vm.registers_mut()[reg(RegId::SP)] = base + 8;
        }
    } else if matches!(c.opc, Opc::Csiz | Opc::Bsiz) {
        vm.memory_mut().grow_stack(base + 32).map_err(e)?;
        vm.registers_mut()[reg(RegId::SP)] = base + 32;
        vm.memory_mut().write_noownerchecks(base, 32usize).map_err(e)?.copy_from_slice(&id);
        rb = base;
        dst = 0;
    } else {
        // CCP / BLDD: id at the bottom of the script's stack frame
        let area = MARGIN + n + MARGIN;
        if c.heap_dst {
            vm.memory_mut().grow_stack(base + 32).map_err(e)?;
            vm.registers_mut()[reg(RegId::SP)] = base + 32;
            vm.allocate(area).map_err(|x| format!("allocate: {x:?}"))?;
            let hp = vm.registers()[reg(RegId::HP)];
            vm.memory_mut().write_noownerchecks(hp, area as usize).map_err(e)?.fill(fill);
            dst = hp + MARGIN;
        } else {
            vm.memory_mut().grow_stack(base + 32 + area).map_err(e)?;
            vm.registers_mut()[reg(RegId::SP)] = base + 32 + area;
            vm.memory_mut().write_noownerchecks(base + 32, area as usize).map_err(e)?.fill(fill);
            dst = base + 32 + MARGIN;
        }
        vm.memory_mut().write_noownerchecks(base, 32usize).map_err(e)?.copy_from_slice(&id);
        ra = dst;
        rb = base;
        rc = c.offset;
        rd = c.len;
    }
    {
        let regs = vm.registers_mut();
        regs[R_A] = ra;
        regs[R_B] = rb;
        regs[R_C] = rc;
        regs[R_D] = rd;
        regs[R_OUT] = 0xDEAD_BEEF;
    }
    let ins: Instruction = match c.opc {
        Opc::Ccp => op::ccp(R_A as u8, R_B as u8, R_C as u8, R_D as u8),
        Opc::Bldd => op::bldd(R_A as u8, R_B as u8, R_C as u8, R_D as u8),
        Opc::Ldc0 | Opc::Ldc1 | Opc::Ldc2 => {
            let mode = if c.fault == Fault::BadMode {
                3
            } else {
                match c.opc {
                    Opc::Ldc0 => 0,
                    Opc::Ldc1 => 1,
                    _ => 2,
                }
            };
            op::ldc(R_A as u8, R_B as u8, R_C as u8, mode)
        }
        Opc::Csiz => op::csiz(R_OUT as u8, R_B as u8),
        Opc::Bsiz => op::bsiz(R_OUT as u8, R_B as u8),
    };
    let before = vm.memory().clone();
    let regs_before = vm.registers().to_vec();
    let r = guarded(|| vm.instruction::<_, false>(ins));
    let outcome = match r {
        Err(p) => Outcome::Other(format!("panic: {}", p.text)),
        Ok(Ok(ExecuteState::Proceed)) => Outcome::Done,
        Ok(Ok(s)) => Outcome::Other(format!("execute state {s:?}")),
        Ok(Err(e)) => match interp_reason(&e) {
            Some(r) => Outcome::Panic(r),
            None => Outcome::Other(format!("{e:?}")),
        },
    };
    Ok(Observed { outcome, dst, before: Some(before), regs_before, regs_after: vm.registers().to_vec() })
}

/// the same case as a real script through `transact`
fn run_e2e(vm: &mut Vm, c: &Case, slot: u8) -> Result<Observed, String> {
    let id = install(vm, c, slot);
    let n = if c.opc.is_ldc() { pad8(c.len) } else { c.len };
    let area = MARGIN + n + MARGIN;
    let mut data = id.to_vec();
    for w in [c.offset, c.len, area] {
        data.extend(w.to_be_bytes());
    }
    data.extend([0u8; 8]);
    // 64 bytes of header, then (mode 2) the source bytes
    if c.opc == Opc::Ldc2 {
        data.extend(&c.obj);
    }
    let (ra, rb, rc, rd, ralloc, rdst) = (R_A as u8, R_B as u8, R_C as u8, R_D as u8, 0x14u8, 0x15u8);
    let mut s = vec![
        op::gtf_args(ra, RegId::ZERO, GTFArgs::ScriptData),
        op::lw(rb, ra, 4),
        op::lw(rc, ra, 5),
        op::lw(ralloc, ra, 6),
        op::movi(R_OUT as u8, 0xBEEF),
    ];
    match c.opc {
        Opc::Ccp | Opc::Bldd => {
            if c.heap_dst {
                s.push(op::aloc(ralloc));
                s.push(op::addi(rdst, RegId::HP, MARGIN as u16));
            } else {
                s.push(op::move_(rdst, RegId::SP));
                s.push(op::cfe(ralloc));
                s.push(op::addi(rdst, rdst, MARGIN as u16));
            }
            // (dst, id, offset, len)
            s.push(if c.opc == Opc::Ccp { op::ccp(rdst, ra, rb, rc) } else { op::bldd(rdst, ra, rb, rc) });
        }
        Opc::Ldc0 | Opc::Ldc1 | Opc::Ldc2 => {
            s.push(op::move_(rdst, RegId::SSP));
            if c.fault == Fault::NonEmptyStack {
                s.push(op::cfei(8));
            }
            let mode = if c.fault == Fault::BadMode { 3 } else { match c.opc { Opc::Ldc0 => 0, Opc::Ldc1 => 1, _ => 2 } };
            if c.opc == Opc::Ldc2 {
                s.push(op::addi(rd, ra, 64));
                s.push(op::ldc(rd, rb, rc, mode));
            } else {
                s.push(op::ldc(ra, rb, rc, mode));
            }
        }
        Opc::Csiz => s.push(op::csiz(R_OUT as u8, ra)),
        Opc::Bsiz => s.push(op::bsiz(R_OUT as u8, ra)),
    }
    s.push(op::ret(RegId::ONE));
    let script: Vec<u8> = s.into_iter().collect();
    // `transact` requires every input contract to exist, so only the one in use is listed
    let ids: Vec<ContractId> = if c.opc.is_contract() && c.fault != Fault::NotInInputs { vec![ContractId::from(id)] } else { vec![] };
    let ready = build_tx(script, data, &ids);
    let r = guarded(|| {
        vm.transact(ready).map(|st| st.receipts().to_vec()).map_err(|e| format!("{e:?}"))
    });
    let outcome = match r {
        Err(p) => Outcome::Other(format!("panic: {}", p.text)),
        Ok(Err(e)) => Outcome::Other(e),
        Ok(Ok(receipts)) => {
            let mut o = Outcome::Other(format!("no result receipt: {receipts:?}"));
            for rc in &receipts {
                match rc {
                    Receipt::Panic { reason, .. } => o = Outcome::Panic(*reason.reason()),
                    Receipt::Return { val: 1, .. } => o = Outcome::Done,
                    _ => {}
                }
            }
            o
        }
    };
    let regs_after = vm.registers().to_vec();
    let dst = regs_after[0x15];
    Ok(Observed { outcome, dst, before: None, regs_before: vec![], regs_after })
}

fn judge(rep: &mut Report, vm: &Vm, c: &Case, mode: &str, obs: &Observed) {
    rep.eval();
    let want = expect(c);
    let outcome_name = match &obs.outcome {
        Outcome::Done => "ok".to_string(),
        Outcome::Panic(r) => format!("{r:?}"),
        Outcome::Other(_) => "other".to_string(),
    };
    rep.class(c.class(&outcome_name));
    rep.count(&format!("{mode}_{}", c.opc.name()));
    let replay = || c.to_json(mode);
    let rel = if matches!(c.opc, Opc::Csiz | Opc::Bsiz) { "size" } else { relation(c.obj.len() as u64, c.offset, c.len) };
    let sig = |what: &str| format!("C36|{}|{rel}|{what}", c.opc.name());
    let describe = || format!("{mode}: {} object {} bytes, offset {}, len {}, dst {}, fault {}", c.opc.name(), c.obj.len(), c.offset, c.len, if c.heap_dst { "heap" } else { "stack" }, c.fault.name());
    match want {
        Expect::Unspecified(why) => {
            rep.count("unspecified_instruction_case");
            rep.note(format!("unspecified (not judged): {why}"));
        }
        Expect::Panic(r) => match &obs.outcome {
            Outcome::Panic(g) if *g == r => {}
            o => rep.violation(format!("C36|{}|fault {}|expected {r:?}, got {outcome_name}", c.opc.name(), c.fault.name()), format!("{}: {o:?}", describe()), replay),
        },
        Expect::Size(n) => match &obs.outcome {
            Outcome::Done => {
                let got = obs.regs_after[R_OUT];
                if got != n {
                    rep.violation(sig("size register != object length"), format!("{}: register = {got}", describe()), replay);
                }
            }
            o => rep.violation(sig(&format!("expected success, got {outcome_name}")), format!("{}: {o:?}", describe()), replay),
        },
        Expect::Copy(exp) => {
            if !matches!(obs.outcome, Outcome::Done) {
                rep.violation(sig(&format!("expected success, got {outcome_name}")), format!("{}: {:?}", describe(), obs.outcome), replay);
                return;
            }
            let n = exp.len() as u64;
            let mem = vm.memory();
            // destination bytes
            let got = match mem.read(obs.dst, n) {
                Ok(g) => g.to_vec(),
                Err(e) => {
                    rep.violation(sig("destination not readable after success"), format!("{}: read({}, {n}) = {e:?}", describe(), obs.dst), replay);
                    return;
                }
            };
            let mut loose = false;
            for (i, (g, w)) in got.iter().zip(exp.iter()).enumerate() {
                let ok = match w {
                    ExpByte::Must(b) => g == b,
                    ExpByte::ZeroOr(b) => {
                        loose = true;
                        *g == 0 || g == b
                    }
                };
                if !ok {
                    let i = i as u64;
                    let what = if i >= c.len {
                        "padding byte wrong"
                    } else if c.offset.checked_add(i).map(|s| s >= c.obj.len() as u64).unwrap_or(true) {
                        "byte past the object's end not zero"
                    } else {
                        "copied byte differs from object"
                    };
                    rep.violation(sig(what), format!("{}: destination byte {i} = {g:#04x}, want {w:?}; destination {}", describe(), hx(&got[..got.len().min(64)])), replay);
                    return;
                }
            }
            if loose {
                rep.count("unspecified_ldc_padding_inside_object");
            }
            // registers
            let ra = &obs.regs_after;
            if c.opc.is_ldc() {
                let want_sp = obs.dst + n;
                if ra[reg(RegId::SSP)] != want_sp || ra[reg(RegId::SP)] != want_sp {
                    rep.violation(sig("$ssp/$sp not advanced by the padded length"), format!("{}: $ssp={} $sp={} want {want_sp}", describe(), ra[reg(RegId::SSP)], ra[reg(RegId::SP)]), replay);
                }
            }
            if let Some(before) = &obs.before {
                let rb = &obs.regs_before;
                for r in 0..64usize {
                    let changed_ok = r == reg(RegId::PC)
                        || r == reg(RegId::CGAS)
                        || r == reg(RegId::GGAS)
                        || (c.opc.is_ldc() && (r == reg(RegId::SSP) || r == reg(RegId::SP)));
                    if !changed_ok && ra[r] != rb[r] {
                        rep.violation(sig("unrelated register changed"), format!("{}: register {r}: {} -> {}", describe(), rb[r], ra[r]), replay);
                    }
                }
                if ra[reg(RegId::PC)] != rb[reg(RegId::PC)] + 4 {
                    rep.violation(sig("$pc not advanced by 4"), describe(), replay);
                }
                // every byte outside the destination is unchanged (fresh stack reads zero)
                let ext_a = mem.stack_raw().len() as u64;
                let ext_b = before.stack_raw().len() as u64;
                let hp = ra[reg(RegId::HP)];
                let mut bad: Option<(u64, u8, u8)> = None;
                let stack_a = mem.read(0u64, ext_a).map(|s| s.to_vec()).unwrap_or_default();
                let stack_b = before.stack_raw();
                if ext_a < ext_b {
                    rep.violation(sig("stack extent shrank"), describe(), replay);
                }
                for a in 0..ext_a {
                    if a >= obs.dst && a < obs.dst + n {
                        continue;
                    }
                    let wb = if a < ext_b { stack_b[a as usize] } else { 0 };
                    if stack_a[a as usize] != wb {
                        bad = Some((a, stack_a[a as usize], wb));
                        break;
                    }
                }
                if bad.is_none() {
                    let heap_a = mem.read(hp, MEM - hp).map(|s| s.to_vec()).unwrap_or_default();
                    let heap_b = before.read(hp, MEM - hp).map(|s| s.to_vec()).unwrap_or_default();
                    if heap_a.len() != heap_b.len() {
                        rep.violation(sig("heap size changed"), describe(), replay);
                    }
                    for (i, (x, y)) in heap_a.iter().zip(heap_b.iter()).enumerate() {
                        let a = hp + i as u64;
                        if a >= obs.dst && a < obs.dst + n {
                            continue;
                        }
                        if x != y {
                            bad = Some((a, *x, *y));
                            break;
                        }
                    }
                }
                if let Some((a, g, w)) = bad {
                    let side = if a < obs.dst { "before" } else { "after" };
                    rep.violation(
                        sig(&format!("memory outside the destination changed ({side} it)")),
                        format!("{}: address {a} (destination {}..{}) = {g:#04x}, was {w:#04x}", describe(), obs.dst, obs.dst + n),
                        replay,
                    );
                }
            } else {
                // e2e: the margins around a CCP/BLDD destination were freshly allocated
                if !c.opc.is_ldc() {
                    for (lo, hi) in [(obs.dst - MARGIN, obs.dst), (obs.dst + n, obs.dst + n + MARGIN)] {
                        match mem.read(lo, hi - lo) {
                            Ok(m) if m.iter().all(|b| *b == 0) => {}
                            other => rep.violation(sig("memory next to the destination changed"), format!("{}: [{lo},{hi}) = {:?}", describe(), other.map(hx)), replay),
                        }
                    }
                }
            }
            if c.obj.len() == 11 && c.len == 13 && c.offset % 5 == 3 && rep.samples.len() < 5 {
                rep.sample(|| json!({"part": "instruction", "case": c.to_json(mode), "destination": hx(&got), "outcome": outcome_name}));
            }
        }
    }
}

fn object_bytes(salt: u64, len: usize) -> Vec<u8> {
    value_bytes(salt as usize, len)
}

fn fault_cases(rng: &mut Rng) -> Vec<Case> {
    let mut v = vec![];
    for opc in OPCS {
        for fault in [Fault::Absent, Fault::NotInInputs, Fault::NonEmptyStack, Fault::BadMode] {
            let c = Case {
                opc,
                obj: object_bytes(rng.below(100), 24),
                fault,
                offset: rng.below(8),
                len: 8 + rng.below(9),
                heap_dst: rng.bool(),
                dirty: rng.bool(),
            };
            if !matches!(expect(&c), Expect::Unspecified(_)) {
                v.push(c);
            }
        }
    }
    v
}

fn part_b(cfg: &Cfg, worker: usize) -> Report {
    let mut rep = Report::new();
    let threads = cfg.threads.max(1);
    let mut vm = new_vm();
    let ready = build_tx(vec![op::ret(RegId::ONE)].into_iter().collect(), vec![], &bench_inputs());
    let (omax, amax) = if cfg.thorough { (40u64, 48u64) } else { (16, 24) };
    let mut counter = 0u64;
    let mut slot = 0u8;
    let mut run_one = |rep: &mut Report, vm: &mut Vm, c: &Case, e2e: bool| {
        slot = (slot + 1) % SLOTS;
        // an input contract that is not stored is rejected before the script runs
        let e2e = e2e && !(c.opc.is_contract() && c.fault == Fault::Absent);
        // the set-up itself (init_script, allocate, transaction checking) runs library code
        let (mode, obs) = if e2e {
            ("script", guarded(|| run_e2e(vm, c, slot)).unwrap_or_else(|p| Err(format!("panic: {}", p.text))))
        } else {
            ("bench", guarded(|| run_bench(vm, &ready, c, slot)).unwrap_or_else(|p| Err(format!("panic: {}", p.text))))
        };
        match obs {
            Ok(o) => judge(rep, vm, c, mode, &o),
            Err(e) => {
                rep.count("harness_setup_failed");
                rep.note(format!("setup failed ({mode}): {e}"));
            }
        }
    };
    // exhaustive small cube: (object len, offset, len) x opcode, destination region and
    // dirtiness alternate deterministically
    for olen in 0..=omax {
        for offset in 0..=amax {
            for len in 0..=amax {
                counter += 1;
                if counter as usize % threads != worker {
                    continue;
                }
                for opc in [Opc::Ccp, Opc::Bldd, Opc::Ldc0, Opc::Ldc1, Opc::Ldc2] {
                    let c = Case {
                        opc,
                        obj: object_bytes(olen + opc as u64, olen as usize),
                        fault: Fault::None,
                        offset,
                        len,
                        heap_dst: (counter / 2) % 2 == 0,
                        dirty: counter % 3 != 0,
                    };
                    if opc == Opc::Ldc2 && offset + len > olen {
                        continue;
                    }
                    run_one(&mut rep, &mut vm, &c, false);
                    // a sample of the cube as real scripts
                    if (counter / threads as u64) % (if cfg.thorough { 40 } else { 60 }) == 0 {
                        run_one(&mut rep, &mut vm, &c, true);
                    }
                }
            }
        }
    }
    // random cases with larger objects, boundary offsets, sizes, faults
    let n_rand = cfg.budget(16_000, 3_000_000) / threads as u64;
    let mut rng = Rng::derive(cfg.seed, 36, worker as u64);
    for i in 0..n_rand {
        let opc = *rng.pick(&OPCS);
        let olen = match rng.below(6) {
            0 => rng.below(64) as usize,
            1 => *rng.pick(&[255usize, 256, 257, 1023, 1024, 1025]),
            2 => *rng.pick(&[16383usize, 16384, 16385, 4096, 4097]),
            _ => rng.len(3000),
        };
        let olen64 = olen as u64;
        let around = |rng: &mut Rng, x: u64| (x + rng.below(19)).saturating_sub(9);
        let offset = match rng.below(8) {
            0 => 0,
            1 => olen64,
            2 => olen64 + 1,
            3 => around(&mut rng, olen64),
            4 => *rng.pick(&[u64::MAX, u64::MAX - 1, 1 << 32, (1 << 32) - 1, 1 << 63, MEM, u32::MAX as u64 + 8]),
            _ => rng.below(olen64 + 2),
        };
        let rest = olen64.saturating_sub(offset);
        let len = match rng.below(7) {
            0 => 0,
            1 => rest,
            2 => around(&mut rng, rest),
            3 => around(&mut rng, olen64),
            4 => rng.below(64),
            5 => pad8(rest) + 8 * rng.below(3),
            _ => rng.below(olen64 + 40),
        };
        let mut c = Case {
            opc,
            obj: object_bytes(rng.below(1000), olen),
            fault: Fault::None,
            offset,
            len,
            heap_dst: rng.bool(),
            dirty: rng.chance(2, 3),
        };
        if opc == Opc::Ldc2 {
            // keep the source inside the prepared bytes
            c.offset = offset.min(olen64);
            c.len = len.min(olen64 - c.offset);
        }
        let e2e = i % 12 == 0;
        run_one(&mut rep, &mut vm, &c, e2e);
        if i % 64 == 0 {
            for f in fault_cases(&mut rng) {
                run_one(&mut rep, &mut vm, &f, (i / 64) % 4 == 0);
            }
        }
    }
    rep
}

fn run_replay(rec: &Value) -> Report {
    let mut rep = Report::new();
    match rec.get("kind").and_then(|k| k.as_str()) {
        Some("read") => {
            let (Some(t), Some(value), Some(method), Some(offset), Some(blen)) = (
                rec.get("table").and_then(|x| x.as_str()).and_then(Table::from_name),
                rec.get("value").and_then(|x| x.as_str()).map(unhx),
                rec.get("method").and_then(|x| x.as_str()),
                rec.get("offset").and_then(|x| x.as_u64()),
                rec.get("buffer_len").and_then(|x| x.as_u64()),
            ) else {
                rep.inconclusive = Some("malformed read replay record".into());
                return rep;
            };
            let st = storage_for(t, &value);
            let zerofill = method == "read_zerofill";
            check_read(&mut rep, &st, t, &value, zerofill, offset as usize, blen as usize);
            let mut buf = vec![FILL; blen as usize];
            let r = do_read(&st, t, TARGET, zerofill, offset as usize, &mut buf);
            rep.note(format!("{}::{method}(offset {offset}, buffer {blen}) on a {}-byte value = {:?}, buffer {}", t.name(), value.len(), r.map_err(|p| p.text), hx(&buf[..buf.len().min(96)])));
        }
        Some("key") => {
            let (Some(t), Some(value)) = (
                rec.get("table").and_then(|x| x.as_str()).and_then(Table::from_name),
                rec.get("value").and_then(|x| x.as_str()).map(unhx),
            ) else {
                rep.inconclusive = Some("malformed key replay record".into());
                return rep;
            };
            let st = storage_for(t, &value);
            check_key_level(&mut rep, &st, t, &value);
        }
        Some("instruction") => {
            let Some(c) = Case::from_json(rec) else {
                rep.inconclusive = Some("malformed instruction replay record".into());
                return rep;
            };
            let e2e = rec.get("mode").and_then(|m| m.as_str()) == Some("script");
            let mut vm = new_vm();
            let obs = if e2e {
                run_e2e(&mut vm, &c, 1)
            } else {
                let ready = build_tx(vec![op::ret(RegId::ONE)].into_iter().collect(), vec![], &bench_inputs());
                run_bench(&mut vm, &ready, &c, 1)
            };
            match obs {
                Ok(o) => {
                    judge(&mut rep, &vm, &c, if e2e { "script" } else { "bench" }, &o);
                    let n = if c.opc.is_ldc() { pad8(c.len) } else { c.len };
                    rep.note(format!(
                        "outcome {:?}; destination {} bytes at {}: {}; size register {}",
                        o.outcome,
                        n,
                        o.dst,
                        vm.memory().read(o.dst, n.min(256)).map(hx).unwrap_or_else(|e| format!("{e:?}")),
                        o.regs_after[R_OUT]
                    ));
                }
                Err(e) => rep.inconclusive = Some(format!("setup failed: {e}")),
            }
        }
        _ => rep.inconclusive = Some("unknown replay record kind".into()),
    }
    rep
}

const RULE: &str = "A: read_exact/read_zerofill/read_alloc/size_of_value of MemoryStorage on ContractsRawCode, ContractsState, BlobData vs slice semantics, exhaustive (value len, offset, buffer len) cube + larger values + boundary offsets up to usize::MAX, buffers pre-filled with 0xAA; B: CCP, BLDD, LDC modes 0/1/2, CSIZ, BSIZ as single instructions on an initialised script VM (whole memory and registers compared) and as scripts through transact. class = (table/opcode, method, relation of offset+len to the value length in {inside, touching end, offset==len, offset>len, partial overlap}[, len mod 8, destination region, outcome])";

pub fn run(cfg: &Cfg) -> Report {
    if let Some(rec) = &cfg.replay {
        let mut rep = run_replay(rec);
        rep.rule = RULE.into();
        return rep;
    }
    let mut rep = par(cfg.threads, |w| {
        let mut r = part_a(cfg, w);
        if cfg.opt("only") != Some("reads") {
            r.merge(part_b(cfg, w));
        }
        r
    });
    rep.rule = RULE.into();
    rep.exhaustive = false;
    rep.assume("read contract as documented on fuel_storage::StorageRead: read_exact Ok+copy iff offset+len <= value length else OutOfBounds; read_zerofill OutOfBounds iff offset > value length, else copy what exists and zero-fill; missing key KeyNotFound; Ok carries the total value length; buffer contents after an error are not judged");
    rep.assume("CCP/BLDD: destination = object[offset..offset+len] with zeros past the object's end; LDC: [old $ssp, +pad8(len)) = object[offset..offset+len] zero padded, $ssp=$sp advanced by pad8(len); CSIZ/BSIZ = exact length; panic reasons only for: absent object (ContractNotFound/BlobNotFound), contract not in inputs, LDC with $ssp != $sp, LDC mode 3");
    rep.note("LDC modes 0/1 copy pad8(len) bytes from the object: a padding byte that still lies inside the object is accepted as either zero or the object's byte (counted in unspecified_ldc_padding_inside_object)");
    for t in TABLES {
        for rel in ["inside", "touching end", "offset==len", "offset>len", "partial overlap"] {
            for m in ["read_exact", "read_zerofill"] {
                let k = format!("{}|{m}|{rel}", t.name());
                let seen = rep.classes.contains(&k) as u64;
                rep.gate(&format!("class {k}"), seen, 1);
            }
        }
    }
    if cfg.opt("only") != Some("reads") {
        for o in OPCS {
            for m in ["bench", "script"] {
                let c = rep.counter(&format!("{m}_{}", o.name()));
                rep.gate(&format!("{m}_{}", o.name()), c, 1);
            }
        }
        let c = rep.counter("harness_setup_failed");
        rep.gate("no_setup_failures", (c == 0) as u64, 1);
    }
    rep
}
