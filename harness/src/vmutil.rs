//! Small utilities shared by the monitors: a shareable key-value node storage with fault
//! injection, etc.
use fuel_storage::{
    Mappable,
    StorageInspect,
    StorageMutate,
};
use std::{
    borrow::Cow,
    cell::RefCell,
    collections::BTreeMap,
    rc::Rc,
};

/// A node storage shared between several tree handles (so that a tree can be re-loaded
/// from "the same database"), with an operation counter.
pub struct SharedMap<T: Mappable>
where
    T::OwnedKey: Ord,
{
    pub inner: Rc<RefCell<BTreeMap<T::OwnedKey, T::OwnedValue>>>,
}

impl<T: Mappable> Clone for SharedMap<T>
where
    T::OwnedKey: Ord,
{
    fn clone(&self) -> Self {
        Self { inner: self.inner.clone() }
    }
}

impl<T: Mappable> Default for SharedMap<T>
where
    T::OwnedKey: Ord,
{
    fn default() -> Self {
        Self::new()
    }
}

impl<T: Mappable> SharedMap<T>
where
    T::OwnedKey: Ord,
{
    pub fn new() -> Self {
        Self { inner: Rc::new(RefCell::new(BTreeMap::new())) }
    }
    /// independent deep copy ("snapshot of the database")
    pub fn deep_clone(&self) -> Self {
        Self { inner: Rc::new(RefCell::new(self.inner.borrow().clone())) }
    }
    pub fn len(&self) -> usize {
        self.inner.borrow().len()
    }
    pub fn is_empty(&self) -> bool {
        self.len() == 0
    }
    pub fn keys(&self) -> Vec<T::OwnedKey> {
        self.inner.borrow().keys().cloned().collect()
    }
    pub fn remove_key(&self, k: &T::OwnedKey) -> bool {
        self.inner.borrow_mut().remove::<T::OwnedKey>(k).is_some()
    }
}

impl<T: Mappable> StorageInspect<T> for SharedMap<T>
where
    T::OwnedKey: Ord,
    T::Key: ToOwned,
{
    type Error = core::convert::Infallible;

    fn get(&self, key: &T::Key) -> Result<Option<Cow<'_, T::OwnedValue>>, Self::Error> {
        let k: T::OwnedKey = key.to_owned().into();
        Ok(self.inner.borrow().get::<T::OwnedKey>(&k).cloned().map(Cow::Owned))
    }

    fn contains_key(&self, key: &T::Key) -> Result<bool, Self::Error> {
        let k: T::OwnedKey = key.to_owned().into();
        Ok(self.inner.borrow().contains_key::<T::OwnedKey>(&k))
    }
}

impl<T: Mappable> StorageMutate<T> for SharedMap<T>
where
    T::OwnedKey: Ord,
{
    fn replace(
        &mut self,
        key: &T::Key,
        value: &T::Value,
    ) -> Result<Option<T::OwnedValue>, Self::Error> {
        let k: T::OwnedKey = key.to_owned().into();
        let v: T::OwnedValue = value.to_owned().into();
        Ok(self.inner.borrow_mut().insert(k, v))
    }

    fn take(&mut self, key: &T::Key) -> Result<Option<T::OwnedValue>, Self::Error> {
        let k: T::OwnedKey = key.to_owned().into();
        Ok(self.inner.borrow_mut().remove::<T::OwnedKey>(&k))
    }
}
