//! Valid-by-construction transactions of all six kinds, plus the catalogue of single-rule
//! violations and of limit tightenings (DESIGN.md 2.4 "transactions", section 4 C19).
//!
//! A [`Draft`] holds the parts of a transaction and of the consensus parameters in mutable
//! form. `valid_draft` builds one that satisfies every validity rule, the damage functions
//! break one rule each (as far as the rules can be broken in isolation), `finish` assembles
//! the `Transaction` and the `ConsensusParameters`. Nothing here is an oracle: whether the
//! result is valid is decided by `refmodel::validity` on the assembled transaction.
//!
//! Signatures are not produced: `IntoChecked::into_checked_basic` does not look at them.

use crate::{
    Rng,
    refmodel::{
        sha256,
        validity,
    },
};
use fuel_tx::{
    BlobBody,
    Chargeable,
    ConsensusParameters,
    Contract,
    ContractParameters,
    FeeParameters,
    GasCosts,
    Input,
    Output,
    PredicateParameters,
    ScriptParameters,
    StorageSlot,
    Transaction,
    TxParameters,
    TxPointer,
    UpgradePurpose,
    UploadBody,
    UploadSubsection,
    UtxoId,
    Witness,
    field as f,
    policies::{
        Policies,
        PolicyType,
    },
};
use fuel_types::{
    Address,
    AssetId,
    BlobId,
    BlockHeight,
    Bytes32,
    ChainId,
    ContractId,
    Nonce,
    Salt,
};
use std::collections::{
    BTreeMap,
    BTreeSet,
};

pub const KIND_NAMES: [&str; 6] = ["Script", "Create", "Mint", "Upgrade", "Upload", "Blob"];
pub const SCRIPT: usize = 0;
pub const CREATE: usize = 1;
pub const MINT: usize = 2;
pub const UPGRADE: usize = 3;
pub const UPLOAD: usize = 4;
pub const BLOB: usize = 5;

#[derive(Clone, Debug)]
pub struct Draft {
    pub kind: usize,
    pub height: u32,
    // consensus parameters
    pub txp: TxParameters,
    pub predp: PredicateParameters,
    pub scriptp: ScriptParameters,
    pub contractp: ContractParameters,
    pub feep: FeeParameters,
    pub chain_id: ChainId,
    pub gas_costs: GasCosts,
    pub base: AssetId,
    pub privileged: Address,
    // common parts
    pub policies: Policies,
    pub unknown_policy_bits: u32,
    pub inputs: Vec<Input>,
    pub outputs: Vec<Output>,
    pub witnesses: Vec<Vec<u8>>,
    // script
    pub gas_limit: u64,
    pub script: Vec<u8>,
    pub script_data: Vec<u8>,
    // create / upload / blob / upgrade(consensus parameters): index of the body's witness
    pub body_witness: u16,
    pub salt: Salt,
    pub slots: Vec<StorageSlot>,
    /// keep `slots` in the given order (the constructor sorts them otherwise)
    pub slots_raw_order: bool,
    /// recompute the ContractCreated output from bytecode, salt and slots when finishing
    pub refresh_created: bool,
    pub purpose: UpgradePurpose,
    pub upload_root: Bytes32,
    pub sub_idx: u16,
    pub sub_n: u16,
    pub proof: Vec<Bytes32>,
    pub blob_id: BlobId,
    // mint
    pub mint_pointer: TxPointer,
    pub mint_out_index: u16,
    pub mint_asset: AssetId,
    /// names of the limits that a damage has set (tightening leaves them alone)
    pub limits_set: BTreeSet<&'static str>,
}

#[derive(Clone, Debug)]
pub struct Case {
    pub tx: Transaction,
    pub height: BlockHeight,
    pub params: ConsensusParameters,
    /// damages and tightenings that were applied, in order
    pub applied: Vec<String>,
    /// number of damages (0 = the transaction is meant to be valid)
    pub damages: usize,
}

// ---------------------------------------------------------------------------------------
// small value generators

fn addr(rng: &mut Rng) -> Address {
    Address::new(rng.arr())
}
fn b32(rng: &mut Rng) -> Bytes32 {
    Bytes32::new(rng.arr())
}
fn fresh_utxo(rng: &mut Rng) -> UtxoId {
    UtxoId::new(b32(rng), rng.u64() as u16)
}
fn fresh_nonce(rng: &mut Rng) -> Nonce {
    Nonce::new(rng.arr())
}
fn fresh_asset(rng: &mut Rng) -> AssetId {
    AssetId::new(rng.arr())
}
fn pointer(rng: &mut Rng) -> TxPointer {
    TxPointer::new((rng.u64() as u32).into(), rng.u64() as u16)
}
fn short_bytes(rng: &mut Rng, min: usize) -> Vec<u8> {
    let n = match rng.below(8) {
        0 => min,
        1..=5 => min + rng.usize_below(40),
        6 => min + rng.usize_below(300),
        _ => min + [7usize, 8, 9, 31, 32, 33, 255, 256][rng.usize_below(8)],
    };
    rng.bytes(n)
}
fn height_pick(rng: &mut Rng) -> u32 {
    match rng.below(8) {
        0 => 0,
        1 => 1,
        2 => u32::MAX,
        3 => u32::MAX - 1,
        4 => 2 + rng.below(1000) as u32,
        _ => rng.u64() as u32,
    }
}

fn is_signed(i: &Input) -> bool {
    matches!(i, Input::CoinSigned(_) | Input::MessageCoinSigned(_) | Input::MessageDataSigned(_))
}
fn is_predicate(i: &Input) -> bool {
    matches!(i, Input::CoinPredicate(_) | Input::MessageCoinPredicate(_) | Input::MessageDataPredicate(_))
}
fn is_spendable(i: &Input) -> bool {
    matches!(i, Input::CoinSigned(_) | Input::CoinPredicate(_) | Input::MessageCoinSigned(_) | Input::MessageCoinPredicate(_))
}
fn is_message_data(i: &Input) -> bool {
    matches!(i, Input::MessageDataSigned(_) | Input::MessageDataPredicate(_))
}

/// same input with another predicate (the owner is kept)
fn with_predicate(i: &Input, p: Vec<u8>) -> Input {
    let pd = i.input_predicate_data().unwrap_or(&[]).to_vec();
    let g = i.predicate_gas_used().unwrap_or(0);
    match i {
        Input::CoinPredicate(c) => Input::coin_predicate(c.utxo_id, c.owner, c.amount, c.asset_id, c.tx_pointer, g, p, pd),
        Input::MessageCoinPredicate(m) => Input::message_coin_predicate(m.sender, m.recipient, m.amount, m.nonce, g, p, pd),
        Input::MessageDataPredicate(m) => Input::message_data_predicate(m.sender, m.recipient, m.amount, m.nonce, g, i.input_data().unwrap_or(&[]).to_vec(), p, pd),
        _ => i.clone(),
    }
}

/// same message input with other data
fn with_data(i: &Input, d: Vec<u8>) -> Input {
    match i {
        Input::MessageDataSigned(m) => Input::message_data_signed(m.sender, m.recipient, m.amount, m.nonce, m.witness_index, d),
        Input::MessageDataPredicate(m) => Input::message_data_predicate(
            m.sender,
            m.recipient,
            m.amount,
            m.nonce,
            i.predicate_gas_used().unwrap_or(0),
            d,
            i.input_predicate().unwrap_or(&[]).to_vec(),
            i.input_predicate_data().unwrap_or(&[]).to_vec(),
        ),
        _ => i.clone(),
    }
}

fn set_witness_index(i: &mut Input, w: u16) {
    match i {
        Input::CoinSigned(c) => c.witness_index = w,
        Input::MessageCoinSigned(m) => m.witness_index = w,
        Input::MessageDataSigned(m) => m.witness_index = w,
        _ => {}
    }
}

fn set_amount(i: &mut Input, a: u64) {
    match i {
        Input::CoinSigned(c) => c.amount = a,
        Input::CoinPredicate(c) => c.amount = a,
        Input::MessageCoinSigned(m) => m.amount = a,
        Input::MessageCoinPredicate(m) => m.amount = a,
        Input::MessageDataSigned(m) => m.amount = a,
        Input::MessageDataPredicate(m) => m.amount = a,
        Input::Contract(_) => {}
    }
}

fn flip_bit(rng: &mut Rng, b: &mut [u8]) {
    if !b.is_empty() {
        let k = rng.usize_below(b.len());
        b[k] ^= 1 << rng.below(8);
    }
}

impl Draft {
    pub fn restricted(&self) -> bool {
        matches!(self.kind, CREATE | UPGRADE | UPLOAD | BLOB)
    }

    fn nwit(&self) -> u16 {
        self.witnesses.len() as u16
    }

    /// a predicate (non-empty) and the address that owns it
    fn predicate(&self, rng: &mut Rng) -> (Vec<u8>, Address) {
        let p = short_bytes(rng, 1);
        let o = Input::predicate_owner(&p);
        (p, o)
    }

    /// input of the given variant (0..7) with fresh identifiers
    fn input(&self, rng: &mut Rng, variant: usize, asset: AssetId, amount: u64) -> Input {
        let wi = if self.nwit() == 0 { 0 } else { rng.below(self.nwit() as u64) as u16 };
        let gas = rng.below(5000);
        match variant % 7 {
            0 => Input::coin_signed(fresh_utxo(rng), addr(rng), amount, asset, pointer(rng), wi),
            1 => {
                let (p, o) = self.predicate(rng);
                Input::coin_predicate(fresh_utxo(rng), o, amount, asset, pointer(rng), gas, p, short_bytes(rng, 0))
            }
            2 => Input::contract(fresh_utxo(rng), b32(rng), b32(rng), pointer(rng), ContractId::new(rng.arr())),
            3 => Input::message_coin_signed(addr(rng), addr(rng), amount, fresh_nonce(rng), wi),
            4 => {
                let (p, o) = self.predicate(rng);
                Input::message_coin_predicate(addr(rng), o, amount, fresh_nonce(rng), gas, p, short_bytes(rng, 0))
            }
            5 => Input::message_data_signed(addr(rng), addr(rng), amount, fresh_nonce(rng), wi, short_bytes(rng, 1)),
            _ => {
                let (p, o) = self.predicate(rng);
                Input::message_data_predicate(addr(rng), o, amount, fresh_nonce(rng), gas, short_bytes(rng, 1), p, short_bytes(rng, 0))
            }
        }
    }

    /// spendable (unrestricted) input sums per asset
    pub fn sums(&self) -> BTreeMap<AssetId, u128> {
        let mut m: BTreeMap<AssetId, u128> = BTreeMap::new();
        for i in &self.inputs {
            match i {
                Input::CoinSigned(c) => *m.entry(c.asset_id).or_default() += c.amount as u128,
                Input::CoinPredicate(c) => *m.entry(c.asset_id).or_default() += c.amount as u128,
                Input::MessageCoinSigned(x) => *m.entry(self.base).or_default() += x.amount as u128,
                Input::MessageCoinPredicate(x) => *m.entry(self.base).or_default() += x.amount as u128,
                _ => {}
            }
        }
        m
    }

    fn coin_outs(&self) -> BTreeMap<AssetId, u128> {
        let mut m: BTreeMap<AssetId, u128> = BTreeMap::new();
        for o in &self.outputs {
            if let Output::Coin { asset_id, amount, .. } = o {
                *m.entry(*asset_id).or_default() += *amount as u128;
            }
        }
        m
    }

    fn fee(&self) -> u128 {
        self.policies.get(PolicyType::MaxFee).unwrap_or(0) as u128
    }

    /// what is left of an asset after coin outputs and (base asset) the fee limit
    fn remaining(&self, a: &AssetId) -> i128 {
        let s = self.sums().get(a).copied().unwrap_or(0) as i128;
        let o = self.coin_outs().get(a).copied().unwrap_or(0) as i128;
        s - o - if *a == self.base { self.fee() as i128 } else { 0 }
    }

    /// assets in the input set (messages bring the base asset)
    fn input_assets(&self) -> Vec<AssetId> {
        let mut s = BTreeSet::new();
        for i in &self.inputs {
            match i {
                Input::CoinSigned(c) => {
                    s.insert(c.asset_id);
                }
                Input::CoinPredicate(c) => {
                    s.insert(c.asset_id);
                }
                Input::Contract(_) => {}
                _ => {
                    s.insert(self.base);
                }
            }
        }
        s.into_iter().collect()
    }

    fn witness_bytes(&self) -> u64 {
        self.witnesses.iter().map(|w| 8 + w.len().div_ceil(8) as u64 * 8).sum()
    }

    /// push a contract input together with its contract output; returns the input index
    fn add_contract_pair(&mut self, rng: &mut Rng, id: Option<ContractId>) -> usize {
        let mut i = self.input(rng, 2, self.base, 0);
        if let (Some(id), Input::Contract(c)) = (id, &mut i) {
            c.contract_id = id;
        }
        self.inputs.push(i);
        let k = self.inputs.len() - 1;
        self.outputs.push(Output::contract(k as u16, b32(rng), b32(rng)));
        k
    }

    /// the ContractCreated output matching bytecode, salt and slots (None if the bytecode
    /// witness does not exist)
    fn created_output(&self) -> Option<Output> {
        let code = self.witnesses.get(self.body_witness as usize)?;
        let root = Contract::root_from_code(code);
        let state = Contract::initial_state_root(self.slots.iter());
        let id = Contract::id(&self.salt, &root, &state);
        Some(Output::contract_created(id, state))
    }

    pub fn params(&self) -> ConsensusParameters {
        ConsensusParameters::new(
            self.txp,
            self.predp,
            self.scriptp,
            self.contractp,
            self.feep,
            self.chain_id,
            self.gas_costs.clone(),
            self.base,
            30_000_000,
            126 * 1024,
            self.privileged,
        )
    }

    /// assemble the transaction
    pub fn transaction(&self) -> Transaction {
        let wits: Vec<Witness> = self.witnesses.iter().map(|w| w.clone().into()).collect();
        let (pol, ins, outs) = (self.policies, self.inputs.clone(), self.outputs.clone());
        let tx: Transaction = match self.kind {
            SCRIPT => Transaction::script(self.gas_limit, self.script.clone(), self.script_data.clone(), pol, ins, outs, wits).into(),
            CREATE => {
                let mut outs = outs;
                if self.refresh_created {
                    if let Some(c) = self.created_output() {
                        for o in outs.iter_mut() {
                            if matches!(o, Output::ContractCreated { .. }) {
                                *o = c;
                            }
                        }
                    }
                }
                let mut t = Transaction::create(self.body_witness, pol, self.salt, self.slots.clone(), ins, outs, wits);
                if self.slots_raw_order {
                    // the guard sorts on drop; forgetting it keeps the order
                    let mut r = f::StorageSlots::storage_slots_mut(&mut t);
                    let v: &mut Vec<StorageSlot> = r.as_mut();
                    v.clone_from(&self.slots);
                    std::mem::forget(r);
                }
                t.into()
            }
            MINT => {
                let Input::Contract(ic) = self.inputs[0].clone() else { unreachable!("mint draft keeps its contract in inputs[0]") };
                let oc = fuel_tx::output::contract::Contract { input_index: self.mint_out_index, balance_root: Bytes32::new([3; 32]), state_root: Bytes32::new([4; 32]) };
                Transaction::mint(self.mint_pointer, ic, oc, self.gas_limit, self.mint_asset, self.height as u64 ^ 0x55).into()
            }
            UPGRADE => Transaction::upgrade(self.purpose, pol, ins, outs, wits).into(),
            UPLOAD => {
                let body = UploadBody {
                    root: self.upload_root,
                    witness_index: self.body_witness,
                    subsection_index: self.sub_idx,
                    subsections_number: self.sub_n,
                    proof_set: self.proof.clone(),
                };
                Transaction::upload(body, pol, ins, outs, wits).into()
            }
            _ => Transaction::blob(BlobBody { id: self.blob_id, witness_index: self.body_witness }, pol, ins, outs, wits).into(),
        };
        if self.unknown_policy_bits != 0 && self.kind != MINT {
            if let Some(t) = with_unknown_policy_bits(&tx, self.unknown_policy_bits) {
                return t;
            }
        }
        tx
    }
}

/// Policies with bits outside the six defined ones cannot be built through the API nor
/// decoded from the wire; the serde representation can carry them.
pub fn with_unknown_policy_bits(tx: &Transaction, extra: u32) -> Option<Transaction> {
    fn patch(v: &mut serde_json::Value, extra: u32) -> bool {
        match v {
            serde_json::Value::Object(m) => {
                if let Some(p) = m.get_mut("policies") {
                    if let Some(bits) = p.get_mut("bits") {
                        let cur = bits.as_str().unwrap_or("").to_string();
                        let add = format!("{:#x}", extra);
                        *bits = serde_json::Value::String(if cur.is_empty() { add } else { format!("{cur} | {add}") });
                        return true;
                    }
                }
                m.values_mut().any(|x| patch(x, extra))
            }
            serde_json::Value::Array(a) => a.iter_mut().any(|x| patch(x, extra)),
            _ => false,
        }
    }
    let mut v = serde_json::to_value(tx).ok()?;
    if !patch(&mut v, extra) {
        return None;
    }
    serde_json::from_value(v).ok()
}

// ---------------------------------------------------------------------------------------
// valid by construction

fn base_params(rng: &mut Rng, kind: usize) -> Draft {
    let base = match rng.below(3) {
        0 => AssetId::new([0; 32]),
        1 => AssetId::new([0xba; 32]),
        _ => fresh_asset(rng),
    };
    let gas_costs = match rng.below(4) {
        0 => GasCosts::free(),
        1 => GasCosts::unit(),
        _ => GasCosts::default(),
    };
    let feep = FeeParameters::DEFAULT
        .with_gas_per_byte([0u64, 1, 4, 63][rng.usize_below(4)])
        .with_gas_price_factor([1u64, 92, 1_000_000_000][rng.usize_below(3)]);
    Draft {
        kind,
        height: height_pick(rng),
        txp: TxParameters::DEFAULT,
        predp: PredicateParameters::DEFAULT,
        scriptp: ScriptParameters::DEFAULT,
        contractp: ContractParameters::DEFAULT,
        feep,
        chain_id: ChainId::new(if rng.bool() { 0 } else { rng.u64() }),
        gas_costs,
        base,
        privileged: addr(rng),
        policies: Policies::new(),
        unknown_policy_bits: 0,
        inputs: vec![],
        outputs: vec![],
        witnesses: vec![],
        gas_limit: rng.below(1_000_000),
        script: vec![],
        script_data: vec![],
        body_witness: 0,
        salt: Salt::new(rng.arr()),
        slots: vec![],
        slots_raw_order: false,
        refresh_created: true,
        purpose: UpgradePurpose::StateTransition { root: b32(rng) },
        upload_root: Bytes32::zeroed(),
        sub_idx: 0,
        sub_n: 0,
        proof: vec![],
        blob_id: BlobId::zeroed(),
        mint_pointer: TxPointer::default(),
        mint_out_index: 0,
        mint_asset: base,
        limits_set: BTreeSet::new(),
    }
}

/// A draft that satisfies every rule.
pub fn valid_draft(rng: &mut Rng, kind: usize) -> Draft {
    let kind = kind % 6;
    let mut d = base_params(rng, kind);
    if kind == MINT {
        d.mint_pointer = TxPointer::new(d.height.into(), rng.u64() as u16);
        let ic = d.input(rng, 2, d.base, 0);
        d.inputs.push(ic);
        d.gas_limit = rng.word(); // mint amount
        return d;
    }

    // witnesses first (signed inputs point into them); the body's witness among them
    let nw = 1 + rng.small(3) as usize;
    for _ in 0..nw {
        let w = match rng.below(4) {
            0 => rng.bytes(64),
            1 => vec![],
            _ => short_bytes(rng, 0),
        };
        d.witnesses.push(w);
    }
    d.body_witness = rng.below(nw as u64) as u16;
    let bw = d.body_witness as usize;
    match kind {
        SCRIPT => {
            d.script = short_bytes(rng, 0);
            d.script_data = short_bytes(rng, 0);
        }
        CREATE => {
            let n = match rng.below(4) {
                0 => 0,
                1 => 4 * rng.usize_below(64),
                2 => rng.usize_below(700),
                _ => 16 * 1024 - 8 + rng.usize_below(17),
            };
            d.witnesses[bw] = rng.bytes(n);
            let ns = rng.small(5) as usize;
            let mut keys = BTreeSet::new();
            while keys.len() < ns {
                keys.insert(rng.id32(1000));
            }
            d.slots = keys.into_iter().map(|k| StorageSlot::new(Bytes32::new(k), b32(rng))).collect();
        }
        UPGRADE => {
            if rng.bool() {
                let mut other = ConsensusParameters::standard();
                other.set_block_gas_limit(rng.u64());
                other.set_privileged_address(addr(rng));
                let bytes = postcard::to_allocvec(&other).expect("serialize consensus parameters");
                let checksum = Bytes32::new(sha256(&[&bytes]));
                d.witnesses[bw] = bytes;
                d.purpose = UpgradePurpose::ConsensusParameters { witness_index: d.body_witness, checksum };
            }
        }
        UPLOAD => {
            let len = 1 + match rng.below(3) {
                0 => rng.usize_below(64),
                1 => rng.usize_below(1500),
                _ => rng.usize_below(5000),
            };
            let code = rng.bytes(len);
            let want = 1 + rng.small(11) as usize; // number of subsections aimed at
            let size = len.div_ceil(want).max(1);
            let subs = UploadSubsection::split_bytecode(&code, size).expect("split");
            let s = subs[rng.usize_below(subs.len())].clone();
            d.upload_root = s.root;
            d.sub_idx = s.subsection_index;
            d.sub_n = s.subsections_number;
            d.proof = s.proof_set;
            d.witnesses[bw] = s.subsection;
        }
        BLOB => {
            d.blob_id = BlobId::new(sha256(&[&d.witnesses[bw]]));
        }
        _ => {}
    }

    // inputs
    let assets: Vec<AssetId> = if kind == SCRIPT {
        vec![d.base, AssetId::new([0x11; 32]), AssetId::new([0x22; 32]), fresh_asset(rng)]
    } else {
        vec![d.base]
    };
    let ni = 1 + if rng.chance(1, 10) { rng.usize_below(9) } else { rng.small(4) as usize };
    let spendable = [0usize, 1, 3, 4];
    let mut running: BTreeMap<AssetId, u128> = BTreeMap::new();
    let mut retry: u128 = 0;
    for k in 0..ni {
        let variant = if k == 0 || kind != SCRIPT { *rng.pick(&spendable) } else { rng.usize_below(7) };
        let asset = if matches!(variant, 0 | 1) { *rng.pick(&assets) } else { d.base };
        // keep every per-asset sum within 64 bits (reaching the maximum exactly now and then)
        let have = if matches!(variant, 5 | 6) { retry } else { running.get(&asset).copied().unwrap_or(0) };
        let room = (u64::MAX as u128 - have) as u64;
        let amount = if rng.chance(1, 12) { room } else { rng.word().min(room) };
        if variant == 2 {
            d.add_contract_pair(rng, None);
            continue;
        }
        if matches!(variant, 5 | 6) {
            retry += amount as u128;
        } else {
            *running.entry(asset).or_default() += amount as u128;
        }
        let i = d.input(rng, variant, asset, amount);
        d.inputs.push(i);
    }
    if kind == UPGRADE {
        // one of the inputs belongs to the privileged address
        let owners: Vec<Address> = d.inputs.iter().filter_map(|i| i.input_owner().copied()).collect();
        d.privileged = *rng.pick(&owners);
    }

    // outputs: coin outputs within the sums, change for input assets, variable (script)
    let spend_assets: Vec<AssetId> = d.sums().keys().copied().collect();
    for _ in 0..rng.small(3) {
        let a = *rng.pick(&spend_assets);
        let room = d.remaining(&a).max(0) as u64;
        let amount = match rng.below(4) {
            0 => 0,
            1 => room,
            _ => rng.range(0, room),
        };
        d.outputs.push(Output::coin(addr(rng), amount, a));
    }
    for a in d.input_assets() {
        if (a == d.base || !d.restricted()) && rng.bool() {
            d.outputs.push(Output::change(addr(rng), rng.word(), a));
        }
    }
    if kind == SCRIPT {
        for _ in 0..rng.small(2) {
            d.outputs.push(Output::variable(addr(rng), rng.word(), fresh_asset(rng)));
        }
    }
    if kind == CREATE {
        let c = d.created_output().expect("bytecode witness exists");
        d.outputs.push(c);
    }
    rng.shuffle(&mut d.outputs);

    // policies
    let room = d.remaining(&d.base).max(0) as u64;
    let fee = match rng.below(4) {
        0 => 0,
        1 => room,
        _ => rng.range(0, room),
    };
    d.policies.set(PolicyType::MaxFee, Some(fee));
    if rng.bool() {
        d.policies.set(PolicyType::Tip, Some(rng.word()));
    }
    if rng.bool() {
        let wb = d.witness_bytes();
        d.policies.set(PolicyType::WitnessLimit, Some(wb + [0, 1, rng.below(1000)][rng.usize_below(3)]));
    }
    if rng.bool() {
        let m = match rng.below(3) {
            0 => 0,
            1 => d.height,
            _ => rng.range(0, d.height as u64) as u32,
        };
        d.policies.set(PolicyType::Maturity, Some(m as u64));
    }
    if rng.bool() {
        let e = match rng.below(3) {
            0 => u32::MAX,
            1 => d.height,
            _ => rng.range(d.height as u64, u32::MAX as u64) as u32,
        };
        d.policies.set(PolicyType::Expiration, Some(e as u64));
    }
    if rng.chance(1, 3) {
        let owned: Vec<usize> = (0..d.inputs.len()).filter(|k| d.inputs[*k].input_owner().is_some()).collect();
        d.policies.set(PolicyType::Owner, Some(*rng.pick(&owned) as u64));
    }
    d
}

// ---------------------------------------------------------------------------------------
// the catalogue of violations

/// damage of the draft; `false` = not applicable to this draft (nothing changed)
pub type DraftDamage = fn(&mut Draft, &mut Rng) -> bool;
/// damage of the limits, given the assembled transaction
pub type LimitDamage = fn(&mut Draft, &Transaction, &mut Rng) -> bool;

fn chargeable(d: &Draft) -> bool {
    d.kind != MINT
}

fn policy_unknown_bit(d: &mut Draft, rng: &mut Rng) -> bool {
    if !chargeable(d) {
        return false;
    }
    d.unknown_policy_bits = 1 << (6 + rng.below(26));
    true
}
fn policy_value_over_32_bits(d: &mut Draft, rng: &mut Rng) -> bool {
    if !chargeable(d) {
        return false;
    }
    let t = *rng.pick(&[PolicyType::Expiration, PolicyType::Expiration, PolicyType::Maturity, PolicyType::Owner]);
    let v = match rng.below(3) {
        0 => 1u64 << 32,
        1 => u64::MAX,
        _ => (1u64 << 32) + rng.word() % (1 << 31),
    };
    d.policies.set(t, Some(v));
    true
}
fn max_fee_policy_missing(d: &mut Draft, _: &mut Rng) -> bool {
    if !chargeable(d) {
        return false;
    }
    d.policies.set(PolicyType::MaxFee, None);
    true
}
fn owner_index_out_of_range(d: &mut Draft, rng: &mut Rng) -> bool {
    if !chargeable(d) {
        return false;
    }
    let n = d.inputs.len() as u64;
    let v = match rng.below(3) {
        0 => n,
        1 => n + 1 + rng.below(5),
        _ => rng.range(n, u32::MAX as u64),
    };
    d.policies.set(PolicyType::Owner, Some(v));
    true
}
fn owner_index_points_to_contract(d: &mut Draft, rng: &mut Rng) -> bool {
    if d.kind != SCRIPT {
        return false;
    }
    let k = match d.inputs.iter().position(|i| matches!(i, Input::Contract(_))) {
        Some(k) => k,
        None => d.add_contract_pair(rng, None),
    };
    d.policies.set(PolicyType::Owner, Some(k as u64));
    true
}
fn no_spendable_input(d: &mut Draft, rng: &mut Rng) -> bool {
    if !chargeable(d) {
        return false;
    }
    if d.kind == SCRIPT && rng.chance(3, 4) {
        // keep the positions (contract outputs refer to them): spendable inputs become
        // messages with data
        for k in 0..d.inputs.len() {
            if is_spendable(&d.inputs[k]) {
                let v = if is_signed(&d.inputs[k]) { 5 } else { 6 };
                let amount = if rng.bool() { 0 } else { rng.below(1000) };
                d.inputs[k] = d.input(rng, v, d.base, amount);
            }
        }
    } else {
        d.inputs.clear();
        d.outputs.retain(|o| !matches!(o, Output::Contract(_)));
        d.policies.set(PolicyType::Owner, None);
    }
    // nothing spendable is left: no fee limit above zero, no coin outputs, change only for
    // what is still in the input set
    d.policies.set(PolicyType::MaxFee, Some(0));
    let set = d.input_assets();
    d.outputs.retain(|o| match o {
        Output::Coin { .. } => false,
        Output::Change { asset_id, .. } => set.contains(asset_id),
        _ => true,
    });
    true
}
fn duplicate_coin_utxo_id(d: &mut Draft, rng: &mut Rng) -> bool {
    if !chargeable(d) {
        return false;
    }
    let coins: Vec<usize> = (0..d.inputs.len()).filter(|k| matches!(d.inputs[*k], Input::CoinSigned(_) | Input::CoinPredicate(_))).collect();
    let (utxo, asset) = if coins.is_empty() {
        let v = rng.usize_below(2);
        let i = d.input(rng, v, d.base, 0);
        let u = *i.utxo_id().unwrap();
        d.inputs.push(i);
        (u, d.base)
    } else {
        let i = &d.inputs[*rng.pick(&coins)];
        (*i.utxo_id().unwrap(), *i.asset_id(&d.base).unwrap())
    };
    let room = (u64::MAX as u128).saturating_sub(d.sums().get(&asset).copied().unwrap_or(0)) as u64;
    let (v, amt) = (rng.usize_below(2), rng.below(1000).min(room));
    let mut i = d.input(rng, v, asset, amt);
    match &mut i {
        Input::CoinSigned(c) => c.utxo_id = utxo,
        Input::CoinPredicate(c) => c.utxo_id = utxo,
        _ => {}
    }
    let at = rng.usize_below(d.inputs.len() + 1);
    insert_input(d, at, i);
    true
}
/// insert an input keeping contract outputs and the owner policy pointing at their inputs
fn insert_input(d: &mut Draft, at: usize, i: Input) {
    d.inputs.insert(at, i);
    for o in d.outputs.iter_mut() {
        if let Output::Contract(c) = o {
            if c.input_index as usize >= at {
                c.input_index += 1;
            }
        }
    }
    if let Some(o) = d.policies.get(PolicyType::Owner) {
        if o >= at as u64 && o < u32::MAX as u64 {
            d.policies.set(PolicyType::Owner, Some(o + 1));
        }
    }
}
fn duplicate_contract_id(d: &mut Draft, rng: &mut Rng) -> bool {
    if d.kind != SCRIPT {
        return false;
    }
    let k = match d.inputs.iter().position(|i| matches!(i, Input::Contract(_))) {
        Some(k) => k,
        None => d.add_contract_pair(rng, None),
    };
    let id = *d.inputs[k].contract_id().unwrap();
    d.add_contract_pair(rng, Some(id));
    true
}
fn duplicate_message_nonce(d: &mut Draft, rng: &mut Rng) -> bool {
    if !chargeable(d) {
        return false;
    }
    let msgs: Vec<usize> = (0..d.inputs.len()).filter(|k| d.inputs[*k].nonce().is_some()).collect();
    let nonce = if msgs.is_empty() {
        let v = 3 + rng.usize_below(2);
        let i = d.input(rng, v, d.base, 0);
        let n = *i.nonce().unwrap();
        d.inputs.push(i);
        n
    } else {
        *d.inputs[*rng.pick(&msgs)].nonce().unwrap()
    };
    let variant = if d.kind == SCRIPT { 3 + rng.usize_below(4) } else { 3 + rng.usize_below(2) };
    let have = if variant >= 5 {
        d.inputs.iter().filter(|i| is_message_data(i)).map(|i| i.amount().unwrap_or(0) as u128).sum()
    } else {
        d.sums().get(&d.base).copied().unwrap_or(0)
    };
    let room = (u64::MAX as u128).saturating_sub(have) as u64;
    let amt = rng.below(1000).min(room);
    let mut i = d.input(rng, variant, d.base, amt);
    match &mut i {
        Input::MessageCoinSigned(m) => m.nonce = nonce,
        Input::MessageCoinPredicate(m) => m.nonce = nonce,
        Input::MessageDataSigned(m) => m.nonce = nonce,
        Input::MessageDataPredicate(m) => m.nonce = nonce,
        _ => {}
    }
    let at = rng.usize_below(d.inputs.len() + 1);
    insert_input(d, at, i);
    true
}
fn predicate_empty(d: &mut Draft, rng: &mut Rng) -> bool {
    if !chargeable(d) {
        return false;
    }
    let ps: Vec<usize> = (0..d.inputs.len()).filter(|k| is_predicate(&d.inputs[*k])).collect();
    let k = if ps.is_empty() {
        let v = if rng.bool() { 1 } else { 4 };
        let i = d.input(rng, v, d.base, 0);
        d.inputs.push(i);
        d.inputs.len() - 1
    } else {
        *rng.pick(&ps)
    };
    d.inputs[k] = with_predicate(&d.inputs[k], vec![]);
    true
}
fn predicate_owner_mismatch(d: &mut Draft, rng: &mut Rng) -> bool {
    if !chargeable(d) {
        return false;
    }
    let ps: Vec<usize> = (0..d.inputs.len()).filter(|k| is_predicate(&d.inputs[*k])).collect();
    let k = if ps.is_empty() {
        let v = if rng.bool() { 1 } else { 4 };
        let i = d.input(rng, v, d.base, 0);
        d.inputs.push(i);
        d.inputs.len() - 1
    } else {
        *rng.pick(&ps)
    };
    // another predicate under the old owner
    let mut p = d.inputs[k].input_predicate().unwrap_or(&[]).to_vec();
    if p.is_empty() || rng.bool() {
        p.push(rng.u8());
    } else {
        flip_bit(rng, &mut p);
    }
    d.inputs[k] = with_predicate(&d.inputs[k], p);
    true
}
fn witness_index_out_of_range(d: &mut Draft, rng: &mut Rng) -> bool {
    if !chargeable(d) {
        return false;
    }
    let ss: Vec<usize> = (0..d.inputs.len()).filter(|k| is_signed(&d.inputs[*k])).collect();
    let k = if ss.is_empty() {
        let v = if rng.bool() { 0 } else { 3 };
        let i = d.input(rng, v, d.base, 0);
        d.inputs.push(i);
        d.inputs.len() - 1
    } else {
        *rng.pick(&ss)
    };
    let n = d.nwit();
    let w = match rng.below(3) {
        0 => n,
        1 => u16::MAX,
        _ => rng.range(n as u64, u16::MAX as u64) as u16,
    };
    set_witness_index(&mut d.inputs[k], w);
    true
}
fn contract_input_without_output(d: &mut Draft, rng: &mut Rng) -> bool {
    if d.kind != SCRIPT {
        return false;
    }
    let k = match d.inputs.iter().position(|i| matches!(i, Input::Contract(_))) {
        Some(k) => k,
        None => d.add_contract_pair(rng, None),
    };
    d.outputs.retain(|o| !matches!(o, Output::Contract(c) if c.input_index as usize == k));
    true
}
fn contract_input_with_two_outputs(d: &mut Draft, rng: &mut Rng) -> bool {
    if d.kind != SCRIPT {
        return false;
    }
    let k = match d.inputs.iter().position(|i| matches!(i, Input::Contract(_))) {
        Some(k) => k,
        None => d.add_contract_pair(rng, None),
    };
    d.outputs.push(Output::contract(k as u16, b32(rng), b32(rng)));
    true
}
fn output_contract_bad_input_index(d: &mut Draft, rng: &mut Rng) -> bool {
    if d.kind != SCRIPT {
        return false;
    }
    let non: Vec<usize> = (0..d.inputs.len()).filter(|k| !matches!(d.inputs[*k], Input::Contract(_))).collect();
    let idx = if rng.bool() && !non.is_empty() {
        *rng.pick(&non) as u16
    } else {
        let n = d.inputs.len() as u64;
        rng.range(n, (n + 3).min(u16::MAX as u64)) as u16
    };
    d.outputs.push(Output::contract(idx, b32(rng), b32(rng)));
    true
}
fn message_data_empty(d: &mut Draft, rng: &mut Rng) -> bool {
    if d.kind != SCRIPT {
        return false;
    }
    let ms: Vec<usize> = (0..d.inputs.len()).filter(|k| is_message_data(&d.inputs[*k])).collect();
    let k = if ms.is_empty() {
        let v = 5 + rng.usize_below(2);
        let i = d.input(rng, v, d.base, 0);
        d.inputs.push(i);
        d.inputs.len() - 1
    } else {
        *rng.pick(&ms)
    };
    d.inputs[k] = with_data(&d.inputs[k], vec![]);
    true
}
fn change_asset_not_among_inputs(d: &mut Draft, rng: &mut Rng) -> bool {
    if !chargeable(d) {
        return false;
    }
    d.outputs.push(Output::change(addr(rng), 0, fresh_asset(rng)));
    true
}
fn coin_asset_not_among_inputs(d: &mut Draft, rng: &mut Rng) -> bool {
    if !chargeable(d) {
        return false;
    }
    let amount = if rng.bool() { 0 } else { rng.word() };
    d.outputs.push(Output::coin(addr(rng), amount, fresh_asset(rng)));
    true
}
fn duplicate_change_output(d: &mut Draft, rng: &mut Rng) -> bool {
    if !chargeable(d) {
        return false;
    }
    let assets: Vec<AssetId> = d.input_assets().into_iter().filter(|a| *a == d.base || !d.restricted()).collect();
    if assets.is_empty() {
        return false;
    }
    let a = *rng.pick(&assets);
    if !d.outputs.iter().any(|o| matches!(o, Output::Change { asset_id, .. } if *asset_id == a)) {
        d.outputs.push(Output::change(addr(rng), 0, a));
    }
    let at = rng.usize_below(d.outputs.len() + 1);
    d.outputs.insert(at, Output::change(addr(rng), rng.word(), a));
    true
}
fn contract_created_output_present(d: &mut Draft, rng: &mut Rng) -> bool {
    if !matches!(d.kind, SCRIPT | UPGRADE | UPLOAD | BLOB) {
        return false;
    }
    d.outputs.push(Output::contract_created(ContractId::new(rng.arr()), b32(rng)));
    true
}
fn non_base_asset_coin_input(d: &mut Draft, rng: &mut Rng) -> bool {
    if !d.restricted() {
        return false;
    }
    let (v, a, amt) = (rng.usize_below(2), fresh_asset(rng), rng.word());
    let i = d.input(rng, v, a, amt);
    let at = rng.usize_below(d.inputs.len() + 1);
    insert_input(d, at, i);
    true
}
fn contract_input_present(d: &mut Draft, rng: &mut Rng) -> bool {
    if !d.restricted() {
        return false;
    }
    d.add_contract_pair(rng, None);
    true
}
fn message_data_input_present(d: &mut Draft, rng: &mut Rng) -> bool {
    if !d.restricted() {
        return false;
    }
    let (v, amt) = (5 + rng.usize_below(2), rng.below(1000));
    let i = d.input(rng, v, d.base, amt);
    let at = rng.usize_below(d.inputs.len() + 1);
    insert_input(d, at, i);
    true
}
fn variable_output_present(d: &mut Draft, rng: &mut Rng) -> bool {
    if !d.restricted() {
        return false;
    }
    d.outputs.push(Output::variable(addr(rng), 0, d.base));
    true
}
fn change_output_non_base_asset(d: &mut Draft, rng: &mut Rng) -> bool {
    if !d.restricted() {
        return false;
    }
    d.outputs.push(Output::change(addr(rng), 0, fresh_asset(rng)));
    true
}
fn contract_output_present(d: &mut Draft, rng: &mut Rng) -> bool {
    if !d.restricted() || d.inputs.is_empty() {
        return false;
    }
    let k = rng.usize_below(d.inputs.len());
    d.outputs.push(Output::contract(k as u16, b32(rng), b32(rng)));
    true
}

fn body_witness_index_out_of_range(d: &mut Draft, rng: &mut Rng) -> bool {
    let n = d.nwit();
    let w = match rng.below(3) {
        0 => n,
        1 => u16::MAX,
        _ => rng.range(n as u64, u16::MAX as u64) as u16,
    };
    match d.kind {
        CREATE | UPLOAD | BLOB => d.body_witness = w,
        UPGRADE => match &mut d.purpose {
            UpgradePurpose::ConsensusParameters { witness_index, .. } => *witness_index = w,
            _ => return false,
        },
        _ => return false,
    }
    true
}
fn create_slots_not_strictly_ascending(d: &mut Draft, rng: &mut Rng) -> bool {
    if d.kind != CREATE {
        return false;
    }
    while d.slots.len() < 2 {
        d.slots.push(StorageSlot::new(b32(rng), b32(rng)));
        d.slots.sort();
    }
    let k = rng.usize_below(d.slots.len() - 1);
    if rng.bool() {
        d.slots.swap(k, k + 1);
    } else {
        // the same key twice (with the same or another value)
        let key = *d.slots[k].key();
        let val = if rng.bool() { *d.slots[k].value() } else { b32(rng) };
        d.slots[k + 1] = StorageSlot::new(key, val);
    }
    d.slots_raw_order = true;
    true
}
fn create_without_contract_created(d: &mut Draft, _: &mut Rng) -> bool {
    if d.kind != CREATE {
        return false;
    }
    d.outputs.retain(|o| !matches!(o, Output::ContractCreated { .. }));
    true
}
fn create_two_contract_created(d: &mut Draft, rng: &mut Rng) -> bool {
    if d.kind != CREATE {
        return false;
    }
    let Some(c) = d.outputs.iter().find(|o| matches!(o, Output::ContractCreated { .. })).cloned() else { return false };
    let at = rng.usize_below(d.outputs.len() + 1);
    d.outputs.insert(at, c);
    true
}
fn create_contract_created_mismatch(d: &mut Draft, rng: &mut Rng) -> bool {
    if d.kind != CREATE {
        return false;
    }
    // first bring the output up to date, then break one of the commitments
    let Some(good) = d.created_output() else { return false };
    d.refresh_created = false;
    let which = rng.below(4);
    for o in d.outputs.iter_mut() {
        if let Output::ContractCreated { contract_id, state_root } = o {
            let Output::ContractCreated { contract_id: gid, state_root: groot } = good else { unreachable!() };
            *contract_id = gid;
            *state_root = groot;
            match which {
                0 => flip_bit(rng, contract_id.as_mut()),
                1 => flip_bit(rng, state_root.as_mut()),
                _ => {}
            }
        }
    }
    match which {
        2 => flip_bit(rng, d.salt.as_mut()),
        3 => {
            let bw = d.body_witness as usize;
            if d.witnesses[bw].is_empty() || rng.bool() {
                d.witnesses[bw].push(rng.u8() | 1);
            } else {
                flip_bit(rng, &mut d.witnesses[bw]);
            }
        }
        _ => {}
    }
    true
}
fn upgrade_no_privileged_owner(d: &mut Draft, rng: &mut Rng) -> bool {
    if d.kind != UPGRADE {
        return false;
    }
    d.privileged = addr(rng);
    true
}
fn upgrade_checksum_mismatch(d: &mut Draft, rng: &mut Rng) -> bool {
    let UpgradePurpose::ConsensusParameters { witness_index, checksum } = &mut d.purpose else { return false };
    if d.kind != UPGRADE {
        return false;
    }
    if rng.bool() {
        flip_bit(rng, checksum.as_mut());
    } else if let Some(w) = d.witnesses.get_mut(*witness_index as usize) {
        // changing a byte may also make the witness undecodable
        flip_bit(rng, w);
    }
    true
}
fn upgrade_witness_not_parameters(d: &mut Draft, rng: &mut Rng) -> bool {
    let UpgradePurpose::ConsensusParameters { witness_index, checksum } = &mut d.purpose else { return false };
    if d.kind != UPGRADE {
        return false;
    }
    let Some(w) = d.witnesses.get_mut(*witness_index as usize) else { return false };
    match rng.below(3) {
        0 => w.truncate(w.len() / 2),
        1 => {
            let n = 1 + rng.usize_below(64);
            *w = rng.bytes(n)
        }
        _ => *w = vec![],
    }
    *checksum = Bytes32::new(sha256(&[w]));
    true
}
fn upload_proof_does_not_verify(d: &mut Draft, rng: &mut Rng) -> bool {
    if d.kind != UPLOAD {
        return false;
    }
    let bw = d.body_witness as usize;
    match rng.below(7) {
        0 => flip_bit(rng, d.upload_root.as_mut()),
        1 if bw < d.witnesses.len() => {
            if d.witnesses[bw].is_empty() {
                d.witnesses[bw].push(1)
            } else {
                flip_bit(rng, &mut d.witnesses[bw])
            }
        }
        2 if !d.proof.is_empty() => {
            let k = rng.usize_below(d.proof.len());
            flip_bit(rng, d.proof[k].as_mut());
        }
        3 if !d.proof.is_empty() => {
            d.proof.pop();
        }
        4 => d.proof.push(b32(rng)),
        5 if d.sub_n > 1 => {
            // another index below the number
            d.sub_idx = ((d.sub_idx as u64 + 1 + rng.below(d.sub_n as u64 - 1)) % d.sub_n as u64) as u16;
        }
        _ => d.sub_n = d.sub_n.wrapping_add(if rng.bool() { 1 } else { 3 }),
    }
    true
}
fn upload_subsection_index_not_below_number(d: &mut Draft, rng: &mut Rng) -> bool {
    if d.kind != UPLOAD {
        return false;
    }
    d.sub_idx = match rng.below(3) {
        0 => d.sub_n,
        1 => u16::MAX,
        _ => rng.range(d.sub_n as u64, u16::MAX as u64) as u16,
    };
    true
}
fn blob_id_mismatch(d: &mut Draft, rng: &mut Rng) -> bool {
    if d.kind != BLOB {
        return false;
    }
    let bw = d.body_witness as usize;
    if rng.bool() || d.witnesses.get(bw).map(|w| w.is_empty()).unwrap_or(true) {
        flip_bit(rng, d.blob_id.as_mut());
    } else {
        flip_bit(rng, &mut d.witnesses[bw]);
    }
    true
}
fn mint_wrong_block_height(d: &mut Draft, rng: &mut Rng) -> bool {
    if d.kind != MINT {
        return false;
    }
    let h = match rng.below(3) {
        0 => d.height.wrapping_add(1),
        1 => d.height.wrapping_sub(1),
        _ => d.height ^ (1 << rng.below(32)),
    };
    d.mint_pointer = TxPointer::new(h.into(), d.mint_pointer.tx_index());
    true
}
fn mint_output_index_not_zero(d: &mut Draft, rng: &mut Rng) -> bool {
    if d.kind != MINT {
        return false;
    }
    d.mint_out_index = 1 + rng.below(u16::MAX as u64) as u16;
    true
}
fn mint_not_base_asset(d: &mut Draft, rng: &mut Rng) -> bool {
    if d.kind != MINT {
        return false;
    }
    d.mint_asset = fresh_asset(rng);
    true
}

// amounts and policy values (applied after the structural damages)

fn witness_limit_below_witnesses(d: &mut Draft, rng: &mut Rng) -> bool {
    if !chargeable(d) {
        return false;
    }
    let wb = d.witness_bytes();
    if wb == 0 {
        return false;
    }
    let v = match rng.below(3) {
        0 => wb - 1,
        1 => 0,
        _ => rng.range(0, wb - 1),
    };
    d.policies.set(PolicyType::WitnessLimit, Some(v));
    true
}
fn maturity_after_block_height(d: &mut Draft, rng: &mut Rng) -> bool {
    if !chargeable(d) {
        return false;
    }
    if d.height == u32::MAX {
        d.height -= 1 + rng.below(3) as u32;
        if let Some(m) = d.policies.get(PolicyType::Maturity) {
            d.policies.set(PolicyType::Maturity, Some(m.min(d.height as u64)));
        }
    }
    let m = match rng.below(3) {
        0 => d.height as u64 + 1,
        1 => u32::MAX as u64,
        _ => rng.range(d.height as u64 + 1, u32::MAX as u64),
    };
    d.policies.set(PolicyType::Maturity, Some(m));
    true
}
fn expiration_before_block_height(d: &mut Draft, rng: &mut Rng) -> bool {
    if !chargeable(d) {
        return false;
    }
    if d.height == 0 {
        d.height = 1 + rng.below(3) as u32;
        if let Some(e) = d.policies.get(PolicyType::Expiration) {
            d.policies.set(PolicyType::Expiration, Some(e.max(d.height as u64)));
        }
    }
    let e = match rng.below(3) {
        0 => d.height as u64 - 1,
        1 => 0,
        _ => rng.range(0, d.height as u64 - 1),
    };
    d.policies.set(PolicyType::Expiration, Some(e));
    true
}
fn coin_output_exceeds_inputs(d: &mut Draft, rng: &mut Rng) -> bool {
    if !chargeable(d) {
        return false;
    }
    let assets: Vec<AssetId> = d.sums().keys().copied().collect();
    if assets.is_empty() {
        return false;
    }
    let a = *rng.pick(&assets);
    let room = d.remaining(&a);
    if room < 0 {
        return true; // already exceeded
    }
    let need = room as u128 + 1 + if rng.bool() { 0 } else { rng.below(1000) as u128 };
    let first = need.min(u64::MAX as u128) as u64;
    d.outputs.push(Output::coin(addr(rng), first, a));
    if need > first as u128 {
        d.outputs.push(Output::coin(addr(rng), (need - first as u128) as u64, a));
    }
    true
}
fn fee_limit_exceeds_base_inputs(d: &mut Draft, rng: &mut Rng) -> bool {
    if !chargeable(d) || !d.policies.is_set(PolicyType::MaxFee) {
        return false;
    }
    let sum = d.sums().get(&d.base).copied().unwrap_or(0);
    let outs = d.coin_outs().get(&d.base).copied().unwrap_or(0);
    // just above what is left after the coin outputs, or above the whole sum
    let target = if rng.bool() { sum.saturating_sub(outs) + 1 } else { sum + 1 + rng.below(1000) as u128 };
    if target > u64::MAX as u128 {
        return false;
    }
    d.policies.set(PolicyType::MaxFee, Some(target as u64));
    true
}
fn input_amounts_overflow(d: &mut Draft, rng: &mut Rng) -> bool {
    if !chargeable(d) {
        return false;
    }
    if d.kind == SCRIPT && rng.chance(1, 3) {
        // the data-message amounts
        let have: u128 = d.inputs.iter().filter(|i| is_message_data(i)).map(|i| i.amount().unwrap_or(0) as u128).sum();
        let mut need = u64::MAX as u128 + 1 - have.min(u64::MAX as u128);
        while need > 0 {
            let a = need.min(u64::MAX as u128) as u64;
            let v = 5 + rng.usize_below(2);
            let i = d.input(rng, v, d.base, a);
            d.inputs.push(i);
            need -= a as u128;
        }
        return true;
    }
    let assets: Vec<AssetId> = d.sums().keys().copied().collect();
    let a = if assets.is_empty() { d.base } else { *rng.pick(&assets) };
    let have = d.sums().get(&a).copied().unwrap_or(0);
    let mut need = u64::MAX as u128 + 1 - have.min(u64::MAX as u128);
    if rng.bool() {
        // raise an existing input as far as possible first
        for k in 0..d.inputs.len() {
            let i = &d.inputs[k];
            let same = match i {
                Input::CoinSigned(_) | Input::CoinPredicate(_) => i.asset_id(&d.base) == Some(&a),
                Input::MessageCoinSigned(_) | Input::MessageCoinPredicate(_) => a == d.base,
                _ => false,
            };
            if same && need > 0 {
                let cur = i.amount().unwrap_or(0);
                let add = need.min((u64::MAX - cur) as u128) as u64;
                set_amount(&mut d.inputs[k], cur + add);
                need -= add as u128;
            }
        }
    }
    while need > 0 {
        let amt = need.min(u64::MAX as u128) as u64;
        let variant = if a == d.base { *rng.pick(&[0usize, 1, 3, 4]) } else { rng.usize_below(2) };
        let i = d.input(rng, variant, a, amt);
        d.inputs.push(i);
        need -= amt as u128;
    }
    true
}
fn max_gas_unbounded(d: &mut Draft, rng: &mut Rng) -> bool {
    if !chargeable(d) {
        return false;
    }
    let ps: Vec<usize> = (0..d.inputs.len()).filter(|k| is_predicate(&d.inputs[*k])).collect();
    match rng.below(3) {
        0 if d.kind == SCRIPT => d.gas_limit = if rng.bool() { u64::MAX } else { d.txp.max_gas_per_tx() },
        1 if !ps.is_empty() => {
            let k = *rng.pick(&ps);
            let big = if rng.bool() { u64::MAX } else { d.txp.max_gas_per_tx() };
            match &mut d.inputs[k] {
                Input::CoinPredicate(c) => c.predicate_gas_used = big,
                Input::MessageCoinPredicate(m) => m.predicate_gas_used = big,
                Input::MessageDataPredicate(m) => m.predicate_gas_used = big,
                _ => {}
            }
        }
        // remaining witness allowance counts into max gas (only if a byte costs gas)
        _ => d.policies.set(PolicyType::WitnessLimit, Some(if rng.bool() { u64::MAX } else { 1 << 40 })),
    }
    true
}

// limits below the transaction's own figures

fn lib_max_gas(tx: &Transaction, p: &ConsensusParameters) -> Option<u64> {
    let (g, fp) = (p.gas_costs(), p.fee_params());
    match tx {
        Transaction::Script(t) => Some(t.max_gas(g, fp)),
        Transaction::Create(t) => Some(t.max_gas(g, fp)),
        Transaction::Upgrade(t) => Some(t.max_gas(g, fp)),
        Transaction::Upload(t) => Some(t.max_gas(g, fp)),
        Transaction::Blob(t) => Some(t.max_gas(g, fp)),
        Transaction::Mint(_) => None,
    }
}

/// the figure a limit is compared with, by limit name
fn figure(d: &Draft, tx: &Transaction, limit: &str) -> Option<u64> {
    let fg = validity::figures(tx);
    let n = |x: usize| Some(x as u64);
    match limit {
        "max_size" => Some(fg.size),
        "max_gas_per_tx" => lib_max_gas(tx, &d.params()),
        "max_inputs" if chargeable(d) => n(d.inputs.len()),
        "max_outputs" if chargeable(d) => n(d.outputs.len()),
        "max_witnesses" if chargeable(d) => n(d.witnesses.len()),
        "max_predicate_length" if d.inputs.iter().any(is_predicate) && chargeable(d) => Some(fg.max_predicate_len),
        "max_predicate_data_length" if d.inputs.iter().any(is_predicate) && chargeable(d) => Some(fg.max_predicate_data_len),
        "max_message_data_length" if d.inputs.iter().any(is_message_data) => Some(fg.max_message_data_len),
        "max_script_length" if d.kind == SCRIPT => n(d.script.len()),
        "max_script_data_length" if d.kind == SCRIPT => n(d.script_data.len()),
        "contract_max_size" if d.kind == CREATE => d.witnesses.get(d.body_witness as usize).map(|w| w.len() as u64),
        "max_storage_slots" if d.kind == CREATE => n(d.slots.len()),
        "max_bytecode_subsections" if d.kind == UPLOAD => Some(d.sub_n as u64),
        _ => None,
    }
}

pub const LIMITS: [&str; 13] = [
    "max_size",
    "max_gas_per_tx",
    "max_inputs",
    "max_outputs",
    "max_witnesses",
    "max_predicate_length",
    "max_predicate_data_length",
    "max_message_data_length",
    "max_script_length",
    "max_script_data_length",
    "contract_max_size",
    "max_storage_slots",
    "max_bytecode_subsections",
];

fn set_limit(d: &mut Draft, limit: &str, v: u64) {
    match limit {
        "max_size" => d.txp = d.txp.with_max_size(v),
        "max_gas_per_tx" => d.txp = d.txp.with_max_gas_per_tx(v),
        "max_inputs" => d.txp = d.txp.with_max_inputs(v.min(u16::MAX as u64) as u16),
        "max_outputs" => d.txp = d.txp.with_max_outputs(v.min(u16::MAX as u64) as u16),
        "max_witnesses" => d.txp = d.txp.with_max_witnesses(v.min(u32::MAX as u64) as u32),
        "max_predicate_length" => d.predp = d.predp.with_max_predicate_length(v),
        "max_predicate_data_length" => d.predp = d.predp.with_max_predicate_data_length(v),
        "max_message_data_length" => d.predp = d.predp.with_max_message_data_length(v),
        "max_script_length" => d.scriptp = d.scriptp.with_max_script_length(v),
        "max_script_data_length" => d.scriptp = d.scriptp.with_max_script_data_length(v),
        "contract_max_size" => d.contractp = d.contractp.with_contract_max_size(v),
        "max_storage_slots" => d.contractp = d.contractp.with_max_storage_slots(v),
        "max_bytecode_subsections" => d.txp = d.txp.with_max_bytecode_subsections(v.min(u16::MAX as u64) as u16),
        _ => unreachable!("unknown limit {limit}"),
    }
}

/// set `limit` just below the transaction's figure
fn limit_below(d: &mut Draft, tx: &Transaction, rng: &mut Rng, limit: &'static str) -> bool {
    let Some(fig) = figure(d, tx, limit) else { return false };
    if fig == 0 {
        return false;
    }
    let v = match rng.below(4) {
        0 | 1 => fig - 1,
        2 => 0,
        _ => rng.range(0, fig - 1),
    };
    set_limit(d, limit, v);
    d.limits_set.insert(limit);
    true
}

macro_rules! limit_damage {
    ($name:ident, $limit:expr) => {
        fn $name(d: &mut Draft, tx: &Transaction, rng: &mut Rng) -> bool {
            limit_below(d, tx, rng, $limit)
        }
    };
}
limit_damage!(max_size_below_size, "max_size");
limit_damage!(max_gas_per_tx_below_max_gas, "max_gas_per_tx");
limit_damage!(max_inputs_below_count, "max_inputs");
limit_damage!(max_outputs_below_count, "max_outputs");
limit_damage!(max_witnesses_below_count, "max_witnesses");
limit_damage!(max_predicate_length_below_longest, "max_predicate_length");
limit_damage!(max_predicate_data_length_below_longest, "max_predicate_data_length");
limit_damage!(max_message_data_length_below_longest, "max_message_data_length");
limit_damage!(max_script_length_below_script, "max_script_length");
limit_damage!(max_script_data_length_below_data, "max_script_data_length");
limit_damage!(contract_max_size_below_bytecode, "contract_max_size");
limit_damage!(max_storage_slots_below_count, "max_storage_slots");
limit_damage!(max_bytecode_subsections_below_number, "max_bytecode_subsections");

/// Limits set exactly at (or one above) the transaction's figures: never a violation by
/// themselves.
pub fn tighten(d: &mut Draft, tx: &Transaction, rng: &mut Rng, applied: &mut Vec<String>) {
    let p = match rng.below(4) {
        0 => 0,
        1 => 1,
        2 => 3,
        _ => 8,
    };
    for limit in LIMITS {
        if d.limits_set.contains(limit) || !rng.chance(p, 8) {
            continue;
        }
        let Some(fig) = figure(d, tx, limit) else { continue };
        let at = rng.chance(2, 3);
        let v = if at { fig } else { fig.saturating_add(1) };
        set_limit(d, limit, v);
        applied.push(format!("tight:{limit}{}", if at { "=" } else { "+1" }));
    }
}

pub enum Damage {
    /// structural change of the draft (phase 0) or amounts / policy values (phase 1)
    Draft(u8, DraftDamage),
    /// a limit below the figure of the assembled transaction (phase 2)
    Limit(LimitDamage),
}

macro_rules! dd {
    ($ph:expr, $f:ident) => {
        (stringify!($f), Damage::Draft($ph, $f))
    };
}
macro_rules! ld {
    ($f:ident) => {
        (stringify!($f), Damage::Limit($f))
    };
}

/// The catalogue: one entry per way of breaking a rule.
pub const CATALOGUE: &[(&str, Damage)] = &[
    dd!(0, policy_unknown_bit),
    dd!(0, policy_value_over_32_bits),
    dd!(0, max_fee_policy_missing),
    dd!(0, owner_index_out_of_range),
    dd!(0, owner_index_points_to_contract),
    dd!(0, no_spendable_input),
    dd!(0, duplicate_coin_utxo_id),
    dd!(0, duplicate_contract_id),
    dd!(0, duplicate_message_nonce),
    dd!(0, predicate_empty),
    dd!(0, predicate_owner_mismatch),
    dd!(0, witness_index_out_of_range),
    dd!(0, contract_input_without_output),
    dd!(0, contract_input_with_two_outputs),
    dd!(0, output_contract_bad_input_index),
    dd!(0, message_data_empty),
    dd!(0, change_asset_not_among_inputs),
    dd!(0, coin_asset_not_among_inputs),
    dd!(0, duplicate_change_output),
    dd!(0, contract_created_output_present),
    dd!(0, non_base_asset_coin_input),
    dd!(0, contract_input_present),
    dd!(0, message_data_input_present),
    dd!(0, variable_output_present),
    dd!(0, change_output_non_base_asset),
    dd!(0, contract_output_present),
    dd!(0, body_witness_index_out_of_range),
    dd!(0, create_slots_not_strictly_ascending),
    dd!(0, create_without_contract_created),
    dd!(0, create_two_contract_created),
    dd!(0, create_contract_created_mismatch),
    dd!(0, upgrade_no_privileged_owner),
    dd!(0, upgrade_checksum_mismatch),
    dd!(0, upgrade_witness_not_parameters),
    dd!(0, upload_proof_does_not_verify),
    dd!(0, upload_subsection_index_not_below_number),
    dd!(0, blob_id_mismatch),
    dd!(0, mint_wrong_block_height),
    dd!(0, mint_output_index_not_zero),
    dd!(0, mint_not_base_asset),
    dd!(1, witness_limit_below_witnesses),
    dd!(1, maturity_after_block_height),
    dd!(1, expiration_before_block_height),
    dd!(1, coin_output_exceeds_inputs),
    dd!(1, fee_limit_exceeds_base_inputs),
    dd!(1, input_amounts_overflow),
    dd!(1, max_gas_unbounded),
    ld!(max_size_below_size),
    ld!(max_gas_per_tx_below_max_gas),
    ld!(max_inputs_below_count),
    ld!(max_outputs_below_count),
    ld!(max_witnesses_below_count),
    ld!(max_predicate_length_below_longest),
    ld!(max_predicate_data_length_below_longest),
    ld!(max_message_data_length_below_longest),
    ld!(max_script_length_below_script),
    ld!(max_script_data_length_below_data),
    ld!(contract_max_size_below_bytecode),
    ld!(max_storage_slots_below_count),
    ld!(max_bytecode_subsections_below_number),
];

/// One generated case: a valid transaction of `kind` damaged by `n_damage` catalogue
/// entries (chosen among those applicable to the kind), under default or tightened limits.
pub fn case(rng: &mut Rng, kind: usize, n_damage: usize) -> Case {
    let mut d = valid_draft(rng, kind);
    let mut applied: Vec<String> = vec![];
    // choose the damages: keep drawing until `n_damage` applicable ones are found
    let mut chosen: Vec<usize> = vec![];
    let mut tries = 0;
    let mut probe_tx: Option<Transaction> = None;
    while chosen.len() < n_damage && tries < 400 {
        tries += 1;
        let k = rng.usize_below(CATALOGUE.len());
        if chosen.contains(&k) {
            continue;
        }
        // applicability is probed on a scratch copy
        let mut scratch = d.clone();
        let ok = match &CATALOGUE[k].1 {
            Damage::Draft(_, f) => f(&mut scratch, &mut rng.clone()),
            Damage::Limit(f) => {
                let tx = probe_tx.get_or_insert_with(|| d.transaction());
                f(&mut scratch, tx, &mut rng.clone())
            }
        };
        if ok {
            chosen.push(k);
        }
    }
    let phase = |k: &usize| match &CATALOGUE[*k].1 {
        Damage::Draft(p, _) => *p,
        Damage::Limit(_) => 2,
    };
    chosen.sort_by_key(phase);
    let mut damages = 0;
    for k in chosen.iter().filter(|k| phase(k) < 2) {
        if let Damage::Draft(_, f) = &CATALOGUE[*k].1 {
            if f(&mut d, rng) {
                applied.push(CATALOGUE[*k].0.to_string());
                damages += 1;
            }
        }
    }
    let tx = d.transaction();
    for k in chosen.iter().filter(|k| phase(k) == 2) {
        if let Damage::Limit(f) = &CATALOGUE[*k].1 {
            if f(&mut d, &tx, rng) {
                applied.push(CATALOGUE[*k].0.to_string());
                damages += 1;
            }
        }
    }
    tighten(&mut d, &tx, rng, &mut applied);
    Case { tx, height: d.height.into(), params: d.params(), applied, damages }
}
