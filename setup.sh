#!/bin/sh
# MANIFEST.setup_cmd: build the harness once, offline, from files on disk only.
set -e
cd "$(dirname "$0")"
export CARGO_NET_OFFLINE=true
mkdir -p work replays evidence
cd harness
cargo build --offline --profile verif --bin monitor
echo "setup ok"
