"""Sanitizer stages (DESIGN 2.3.8): Miri on the unsafe canonical codec (C01, C02),
valgrind memcheck on the libsecp256k1 FFI workload (C16, C17). Thorough tier only.

A sanitizer diagnostic is a violation (UB / invalid memory access is strictly worse than
a panic); a tool that cannot run, or times out, makes the stage inconclusive and is
reported as such (never as a violation)."""
import os, subprocess, time, re

ROOT = os.path.dirname(os.path.dirname(os.path.abspath(__file__)))
MIRI_DIR = os.path.join(ROOT, "harness-miri")
ENV = dict(os.environ)
ENV.setdefault("CARGO_NET_OFFLINE", "true")
ENV["CARGO_TERM_COLOR"] = "never"

MIRI_SHARDS = 16
MIRI_TIMEOUT = 2400


MIRI_MODES = {
    # mode: (cases per shard, what the workload is)
    "codec": (200, "canonical codec workload (x ~12 encode/decode calls per case incl. mutated inputs and MaybeUninit array paths)"),
    "compress": (60, "fuel-compression [T; S] compress/decompress workload (MaybeUninit arrays, context failing at every call index, heap-owning elements)"),
    "merkle": (12, "in-memory sparse and binary Merkle tree workload (MerkleTreeKey constructors, update/delete/proof/verify)"),
}


def miri_stage(prop, seed, report, stages, mode="codec"):
    t0 = time.time()
    MIRI_CASES, what = MIRI_MODES[mode]
    # build once (sysroot + deps), then run the shards in parallel
    b = subprocess.run(["cargo", "+nightly", "miri", "run", "--offline", "--", str(seed), "1", mode],
                       cwd=MIRI_DIR, env=ENV, stdout=subprocess.PIPE, stderr=subprocess.STDOUT, text=True,
                       timeout=MIRI_TIMEOUT)
    if "MIRI-OK" not in b.stdout and "error: Undefined Behavior" not in b.stdout:
        stages.append({"stage": "miri", "ok": False, "wall_s": round(time.time() - t0, 1),
                       "note": "miri could not run: " + b.stdout[-400:]})
        return "miri stage could not run (build failed or tool missing)"
    procs = []
    for sh in range(MIRI_SHARDS):
        s = seed * 1000 + sh + 1
        procs.append((s, subprocess.Popen(["cargo", "+nightly", "miri", "run", "--offline", "--", str(s), str(MIRI_CASES), mode],
                                          cwd=MIRI_DIR, env=ENV, stdout=subprocess.PIPE, stderr=subprocess.STDOUT, text=True)))
    cases, bad, reason = 0, 0, None
    for s, p in procs:
        try:
            out, _ = p.communicate(timeout=MIRI_TIMEOUT)
        except subprocess.TimeoutExpired:
            p.kill()
            reason = "a miri shard timed out"
            continue
        m = re.search(r"MIRI-OK (?:mode=\w+ )?cases=(\d+)", out)
        if m and p.returncode == 0:
            cases += int(m.group(1))
            continue
        # a diagnostic: undefined behaviour, leak, abort, or a panic in the harness
        diag = [l for l in out.splitlines() if l.startswith("error") or "Undefined Behavior" in l or "panicked" in l]
        first = diag[0] if diag else out[-300:]
        kind = "undefined behaviour" if "Undefined Behavior" in out else ("memory leak" if "leaked" in out else "abnormal exit")
        sig = f"{prop}|miri|{kind}|" + re.sub(r"0x[0-9a-f]+|alloc\d+|\d+", "N", first)[:120]
        report.setdefault("violations", []).append({
            "signature": sig,
            "what": f"Miri reported {kind} in the {mode} workload (shard seed {s}): {first[:400]}",
            "replay": {"kind": "miri", "cmd": f"cd /verif/harness-miri && cargo +nightly miri run --offline -- {s} {MIRI_CASES} {mode}"}})
        vc = report.setdefault("violation_counts", {})
        vc[sig] = vc.get(sig, 0) + 1
        bad += 1
    report.setdefault("counters", {})["miri_cases_interpreted"] = cases
    report.setdefault("notes", []).append(
        f"Miri interpreted {cases} cases of the {what} in {MIRI_SHARDS} shards; diagnostics: {bad}")
    stages.append({"stage": "miri (cargo +nightly miri run, harness-miri)", "ok": bad == 0, "cases": cases,
                   "wall_s": round(time.time() - t0, 1)})
    if cases == 0 and bad == 0:
        return reason or "miri interpreted no case"
    return None


def valgrind_stage(prop, seed, report, stages):
    t0 = time.time()
    mon = os.path.join(ROOT, "harness", "target", "verif", "monitor")
    out = os.path.join(ROOT, "work", f"{prop}.valgrind.report.json")
    cmd = ["valgrind", "--tool=memcheck", "--error-exitcode=9", "--errors-for-leak-kinds=none", "-q",
           mon, "C16", "--tier", "quick", "--seed", str(seed), "--threads", "2", "--scale", "0.2",
           "--out", out, "--work", os.path.join(ROOT, "work"), "--opt", "ffi-only=1"]
    try:
        p = subprocess.run(cmd, cwd=ROOT, env=ENV, stdout=subprocess.PIPE, stderr=subprocess.STDOUT, text=True, timeout=1800)
    except (subprocess.TimeoutExpired, FileNotFoundError) as e:
        stages.append({"stage": "valgrind memcheck", "ok": False, "note": str(e)[:200]})
        return "valgrind stage could not complete"
    wall = round(time.time() - t0, 1)
    if p.returncode == 9 or "Invalid read" in p.stdout or "Invalid write" in p.stdout or "uninitialised" in p.stdout:
        first = next((l for l in p.stdout.splitlines() if "Invalid" in l or "uninitialised" in l), p.stdout[-300:])
        sig = f"{prop}|valgrind memcheck|" + re.sub(r"==\d+==|0x[0-9A-Fa-f]+|\d+", "", first).strip()[:100]
        report.setdefault("violations", []).append({"signature": sig, "what": "memcheck error in the libsecp256k1 FFI workload: " + p.stdout[-800:],
                                                   "replay": {"kind": "valgrind", "cmd": " ".join(cmd)}})
        vc = report.setdefault("violation_counts", {})
        vc[sig] = vc.get(sig, 0) + 1
        stages.append({"stage": "valgrind memcheck (libsecp256k1 half of the C16 workload)", "ok": False, "wall_s": wall})
        return None
    if p.returncode != 0:
        stages.append({"stage": "valgrind memcheck", "ok": False, "wall_s": wall, "note": p.stdout[-300:]})
        return "valgrind run failed without a memcheck error"
    report.setdefault("notes", []).append("valgrind memcheck on the libsecp256k1 (FFI) half of the workload: 0 errors")
    report.setdefault("counters", {})["valgrind_memcheck_errors"] = 0
    stages.append({"stage": "valgrind memcheck (libsecp256k1 half of the C16 workload)", "ok": True, "wall_s": wall})
    return None


def extra_stages(prop, tier, seed, report, stages):
    if tier != "thorough":
        return report, None
    reason = None
    if prop in ("C01", "C02"):
        reason = miri_stage(prop, seed, report, stages)
    if prop == "C07":
        reason = miri_stage(prop, seed, report, stages, mode="compress")
    if prop in ("C09", "C10", "C12", "C14"):
        reason = miri_stage(prop, seed, report, stages, mode="merkle")
    if prop in ("C16", "C17"):
        reason = valgrind_stage(prop, seed, report, stages)
    return report, reason
