#!/opt/veriftools/pyvenv/bin/python
"""Development aid: validate MANIFEST.json and evidence/*.json against the schemas."""
import json, sys, glob, jsonschema
m = json.load(open('/verif/MANIFEST.json'))
jsonschema.validate(m, json.load(open('/root/.vp/MANIFEST.schema.json')))
print('MANIFEST ok:', len(m['checks']), 'checks,', len(m.get('not_applicable', [])), 'n/a')
es = json.load(open('/root/.vp/EVIDENCE.schema.json'))
for f in sorted(glob.glob('/verif/evidence/*.json')):
    try:
        jsonschema.validate(json.load(open(f)), es)
    except Exception as e:
        print('INVALID', f, str(e)[:300]); continue
    print('ok', f)
