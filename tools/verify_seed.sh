#!/bin/bash
# Development aid: confirm an independently produced breaking change in a scratch worktree.
#   tools/verify_seed.sh <dir with patch.diff [demo.patch] meta.json> [--skip-suite]
# 1. patch applies and the workspace test binaries build; 2. the existing suite passes with it;
# 3. the demonstration fails with the change and passes without it.
# Results are appended to <dir>/verify.log. The worktree /tmp/seedwt keeps its target dir
# between calls (removed by `tools/verify_seed.sh --clean`).
set -u
WT=/tmp/seedwt
if [ "${1:-}" = "--clean" ]; then git -C /repo worktree remove --force $WT 2>/dev/null; rm -rf $WT; exit 0; fi
D=$(realpath "$1"); SKIP=${2:-}
LOG=$D/verify.log; : > $LOG
[ -d $WT ] || git -C /repo worktree add -f --detach $WT HEAD >/dev/null 2>&1
cd $WT && git checkout -q --detach $(git -C /repo rev-parse HEAD) && git checkout -q -- . && git clean -qfd -e target
export CARGO_TARGET_DIR=$WT/target CARGO_NET_OFFLINE=true
echo "base commit $(git rev-parse --short HEAD)" >> $LOG
git apply --check $D/patch.diff 2>>$LOG || { echo "RESULT patch does not apply" | tee -a $LOG; exit 1; }
git apply $D/patch.diff
if [ "$SKIP" != "--skip-suite" ]; then
  cargo nextest run --workspace --no-fail-fast --test-threads 8 --offline > $D/suite.log 2>&1
  SUM=$(grep -E "Summary|tests run" $D/suite.log | tail -1)
  echo "suite with change: $SUM" >> $LOG
  if grep -q "failed" <<<"$SUM"; then echo "RESULT existing suite FAILS with the change" | tee -a $LOG; grep -E "^\s+FAIL" $D/suite.log | head -5 >> $LOG; fi
fi
DEMO=$(python3 - "$D/meta.json" <<'PY'
import json,sys,re
c=json.load(open(sys.argv[1])).get('demo_cmd','')
if isinstance(c,list): c=' && '.join(c)
m=re.search(r'cargo (test|run)[^()&;|]*', c)
print(m.group(0).strip() if m else c)
PY
)
if [ -f $D/demo.patch ]; then git apply $D/demo.patch 2>>$LOG || echo "demo.patch does not apply" >> $LOG; fi
echo "demo cmd: $DEMO" >> $LOG
( cd $WT && eval "$DEMO" ) > $D/demo_with.log 2>&1; W=$?
git apply -R $D/patch.diff
( cd $WT && eval "$DEMO" ) > $D/demo_without.log 2>&1; WO=$?
echo "demo exit with change: $W, without change: $WO" | tee -a $LOG
if [ $W -ne 0 ] && [ $WO -eq 0 ]; then echo "RESULT demo OK (fails with, passes without)" | tee -a $LOG; else echo "RESULT demo NOT as claimed" | tee -a $LOG; fi
git checkout -q -- . && git clean -qfd -e target
