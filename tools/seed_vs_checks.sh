#!/bin/bash
# Development aid: run checks against a seeded change applied to /repo, then undo it.
#   tools/seed_vs_checks.sh <seeded dir> <Cxx> [more Cxx...]   (quick tier, seed from VERIF_SEED)
set -u
D=$(realpath "$1"); shift
cd /repo && git diff --quiet || { echo "/repo has local changes"; exit 2; }
git -C /repo apply "$D/patch.diff" || exit 2
for P in "$@"; do
  ( cd /verif && ./check $P ${TIER:-quick} > "$D/check_$P.log" 2>&1; echo "$P exit=$? $(grep -c '^VIOLATION' "$D/check_$P.log") violation lines; $(grep -E '^(HELD|INCONCLUSIVE)' "$D/check_$P.log" | head -1)" )
  grep -m3 "signature:" "$D/check_$P.log"
done
git -C /repo checkout -- .
