#!/bin/bash
# Development aid: run checks against a seeded change applied to /repo, then undo it.
#   tools/seed_vs_checks.sh <seeded dir> <Cxx> [more Cxx...]   (quick tier, seed from VERIF_SEED)
set -u
D=$(realpath "$1"); shift
# other long-running checks (thorough sweeps) build from /repo too: take the repo lock
mkdir -p /verif/work
if [ ! -e /verif/work/.repo.pause ]; then touch /verif/work/.repo.pause; trap 'rm -f /verif/work/.repo.pause' EXIT; fi
exec 9>/verif/work/.repo.lock; flock 9
cd /repo && git diff --quiet || { echo "/repo has local changes"; exit 2; }
git -C /repo apply "$D/patch.diff" || exit 2
for P in "$@"; do
  cp /verif/evidence/$P.json /verif/work/$P.evidence.keep 2>/dev/null
  ( cd /verif && ./check $P ${TIER:-quick} > "$D/check_$P.log" 2>&1; echo "$P exit=$? $(grep -c '^VIOLATION' "$D/check_$P.log") violation lines; $(grep -E '^(HELD|INCONCLUSIVE)' "$D/check_$P.log" | head -1)" )
  grep -m3 "signature:" "$D/check_$P.log"
  # the evidence file must describe the unchanged tree: put the previous one back
  cp /verif/evidence/$P.json "$D/evidence_$P.json" 2>/dev/null; mv /verif/work/$P.evidence.keep /verif/evidence/$P.json 2>/dev/null
done
git -C /repo checkout -- .
