#!/usr/bin/python3
"""Regenerates /verif/MANIFEST.json from the table below (development aid)."""
import json, os

ROOT = os.path.dirname(os.path.dirname(os.path.abspath(__file__)))

EXPL = ("Exploration (runtime monitoring): the real code is executed on generated workloads and every "
        "execution is judged by an oracle; the verdict is 'held on the executions produced', with the "
        "coverage classes actually observed written to the evidence file. ")
BUS = ("Trusts the program generator/TransactionBuilder to produce valid transactions, the debugger's "
       "single-stepping as the observation point (each stepped run is paired with a plain run and discarded "
       "if they differ), and the harness transcription of the instruction-set rules.")

# id -> (technique, level text, level note, design ref)
CLAIMED = {
    "C01": ("round-trip law monitor over generated protocol values (encode/size/decode equality), reference encoder run alongside",
            EXPL + "Systematic product of type x variant x vector-length class x policy mask with boundary-biased field values.",
            "Equality is the types' own PartialEq with the panic reason masked. Six value shapes the wire format cannot express are listed as known findings.", "4/C01"),
    "C02": ("fuzz-style mutation workload on the real decoders under catch_unwind; oracle = no panic + size()==consumed + decode(encode(v))==v",
            EXPL + "16 decoder targets x 14 word-replacement values x truncations/bit flips/padding/splices + random strings.",
            "Abort-class failures (allocation failure, stack overflow) would end the monitor process and are reported as inconclusive, not as a violation; memory reservations are observed, not judged.", "4/C02"),
    "C03": ("reference-model monitor: id vs sha256(chain_id_be || reference encoding of the harness-normalised tx) + single-field lens table (id changes iff field not malleable) + cached-vs-fresh id",
            EXPL + "Free-form transactions of all six kinds, every field lens applied to every transaction.",
            "Malleable-field list transcribed from the property statement; reference encoder refmodel::canon; sha2.", "4/C03"),
    "C04": ("reference layout walker (hand-written tx format) compared with every offset API, with and without cached metadata, plus decode-at-offset on the library's encoding",
            EXPL + "Free-form transactions of all kinds with 0..8 inputs/outputs/witnesses in mixed layouts.",
            "Trusts the reference layout walker refmodel::canon (which agrees byte-for-byte with to_bytes on every generated transaction, checked per case).", "4/C04"),
    "C06": ("round-trip law monitor over three serde back-ends (JSON, postcard, bincode) + upgrade checksum / UpgradeMetadata reproduction checks",
            EXPL + "All protocol types, 64 policy masks in both serde layouts, every consensus-parameter / gas-table version built explicitly with boundary values.",
            "sha2 and the serde back-ends themselves are trusted.", "4/C06"),
    "C12": ("history monitor: root after every insert/overwrite/delete (storage-backed and in-memory trees) and from_set/root_from_set/nodes_from_set vs an independent compact-SMT recursion over the model map",
            EXPL + "Adversarially clustered key universes (shared prefixes 0..255 bits, last-bit neighbours, all-zero/all-one keys), histories of 1..80 operations.",
            "Trusts sha2 and the harness transcription of the compact sparse-Merkle definition quoted in the property.", "4/C12"),
    "C13": ("crash-point monitor: at every position of a history the node storage is cloned and a tree re-loaded from it, then driven in lock-step with the original and the reference; node-deletion faults; reachability walk over stored nodes",
            EXPL + "Reload at every history position, empty-root loads, nodes_from_set loads, single-node deletion faults.",
            "A tree on faulty storage may fail or panic; only a wrong Ok (root/proof disagreeing with the reference) is a violation.", "4/C13"),
    "C14": ("reference-verifier agreement monitor: proof kind vs model membership, generated proofs verify, ~30 structured proof mutations judged by an independent compact-SMT recomputation",
            EXPL + "Trees reached by clustered-key histories, queries on present keys, late-bit neighbours and absent keys, mutation catalogue.",
            "Trusts sha2 and the harness transcription of the compact sparse-Merkle definition.", "4/C14"),
    "C30": ("recording storage wrapper + step bus: every contract-table access attributed to the executing instruction must target a contract input; predicate runs over a recording storage must not touch contract tables",
            EXPL + "Generated scripts/contracts calling/transferring/querying listed, unlisted-but-deployed and unknown contract ids.",
            BUS + " One known finding (CALL reads the target's code size before the input check) is listed in known_findings.jsonl.", "4/C30"),
    "C07": ("round-trip monitor: compress -> postcard -> decompress against a harness registry context, id equality + field-wise comparison driven by a literal skip table",
            EXPL + "Sequences of transactions sharing one registry context (key reuse, wrap-around, eviction).",
            "Trusts UniqueIdentifier::id (judged by C03) and the harness-side context implementation; Coin/Message/Mint decompression is the context's job by design.", "4/C07"),
    "C08": ("exhaustive sweep of all 2^32 words and all constructor argument tuples against a hand-written opcode/shape table (thorough); structured 2^26 slice (quick)",
            EXPL + "Thorough tier enumerates the finite space completely (exhaustive: true); quick tier is a structured slice.",
            "Trusts the hand-written opcode table in the monitor (cross-read against the instruction set).", "4/C08"),
    "C09": ("reference-model monitor: every root produced by the binary-Merkle implementations compared with an independent RFC 6962 MTH on generated leaf streams",
            EXPL + "Roots of all prefixes of 16 leaf streams (dense) plus powers of two +-1 and random big counts.",
            "Trusts sha2 and the harness transcription of RFC 6962 section 2.1.", "4/C09"),
    "C10": ("reference-model monitor: produced proofs compared with RFC 6962 PATH; binary::verify compared with a reference audit-path verifier on 39 mutation operators and constructed u64-boundary tuples",
            EXPL + "Exhaustive (n,i) for small n, sampled big n, structured mutations; verdict = agreement with the reference verifier.",
            "Trusts sha2 and the harness transcription of RFC 6962 (MTH, PATH, audit-path verification).", "4/C10"),
    "C11": ("history monitor: push/reset/root/prove/leaves_count/load histories on both tree implementations checked step by step against a Vec-of-leaves model + RFC 6962 reference",
            EXPL + "Random histories of 1..60 operations incl. reset and reload at recorded counts, probes at and beyond the leaf count.",
            "load is only judged at leaf counts recorded since the last reset (as the property says).", "4/C11"),
    "C16": ("differential monitor: every case through both secp256k1 back-ends in one build (hook H1), results must be equal; valgrind memcheck on the libsecp256k1 half in the thorough tier",
            EXPL + "Deterministic sweep of (r class x s class x parity x message class), mutated valid signatures, malformed public keys, plus random mix.",
            "Both back-ends are compared inside one std build through the verif-hooks re-export; a genuine no_std build of the workspace is not executed.", "4/C16"),
    "C17": ("algebraic-consistency monitor (sign/recover/verify laws), Ed25519 vs ed25519-dalek verify_strict called directly, VM opcodes vs library calls",
            EXPL + "Keys {1,2,n-1,random} x messages, 12 signature mutations, 27 Ed25519 classes over message lengths 0..300, ECK1/ECR1/ED19 scripts.",
            "Trusts k256/p256/ed25519-dalek called directly as references and the harness 256-bit helper arithmetic.", "4/C17"),
    "C18": ("event log + offline Python big-integer oracle for the fee/refund formulas; into_ready verdict judged directly",
            EXPL + "All five chargeable kinds x boundary-biased prices/factors/tips/limits/used gas x four gas schedules, regimes around u64 saturation and the fee limit.",
            "The oracle checks the fee formulas from the gas amounts the library reports (the gas schedule itself is not recomputed); min(2^64-1, min_gas+used) is taken as the gas amount.", "4/C18"),
    "C21": ("single-instruction bench + event log + offline Python big-integer oracle of the ALU semantics",
            EXPL + "33 mnemonics, boundary x boundary operands, all flag values, reserved/aliased destinations, NIOP 8-bit exhaustive in thorough.",
            "Oracle is a transcription of the instruction-set semantics in Python integers; corners whose specification is uncertain are counted, not judged (listed in DESIGN.md).", "4/C21"),
    "C22": ("single-instruction bench with memory operands + event log + offline Python big-integer oracle of the wide-integer semantics",
            EXPL + "All 14 WD/WQ opcodes x all 64 immediates x flags x operand/destination placements (owned, un-owned, overlapping, gap).",
            "Oracle is a transcription of the instruction-set semantics in Python integers (512-bit intermediates).", "4/C22"),
    "C25": ("online step-trace checker on the step bus: reference next-$pc in unbounded arithmetic vs observed landing address for every single-stepped instruction",
            EXPL + "Generated scripts/contracts with loops, JAL subroutines and wild jumps; millions of monitored steps.",
            BUS, "4/C25"),
    "C32": ("differential runs: single-stepped and breakpointed executions resumed to completion vs plain run; event-location and no-repeat checks on every debug event",
            EXPL + "Generated scripts/contracts, random breakpoint sets inside scripts and contracts.",
            BUS, "4/C32"),
}

NOT_YET = "monitor not built yet in this revision (work in progress; design in DESIGN.md section 4)"

HOOK_COMMITS = ["3b32dc9", "849f252"]


def main():
    props = [json.loads(l) for l in open(os.path.join(ROOT, "properties.jsonl"))]
    checks, na = [], []
    for p in props:
        pid = p["id"]
        if pid in CLAIMED:
            tech, text, note, ref = CLAIMED[pid]
            checks.append({
                "property_id": pid,
                "quick_cmd": f"./check {pid} quick",
                "thorough_cmd": f"./check {pid} thorough",
                "evidence_file": f"/verif/evidence/{pid}.json",
                "replay_cmd_template": f"./check {pid} replay {{path}}",
                "engine": "verif-harness",
                "level_claimed": {"category": "exploration", "text": text, "design_ref": f"DESIGN.md section {ref}"},
                "level_note": note,
                "technique": tech,
            })
        else:
            na.append({"property_id": pid, "reason": NOT_YET})
    m = {
        "version": 1,
        "setup_cmd": "./setup.sh",
        "hooks": {
            "guard": "cargo feature `verif-hooks` (fuel-crypto, fuel-vm), off by default",
            "enable": "the harness (harness/Cargo.toml) depends on /repo's crates by path with features = [\"verif-hooks\"]; every check rebuilds it with `cargo build --offline --profile verif`",
            "baseline_off_cmd": "cd /repo && cargo nextest run --workspace --no-fail-fast --tool-config-file pb:/w/lib/nextest.toml --profile pb --test-threads 8 --offline",
            "source_commits": HOOK_COMMITS,
            "add_only": True,
        },
        "engines": [
            {"name": "verif-harness", "path": "/verif/harness",
             "serves_properties": sorted(CLAIMED.keys()),
             "kind_free_text": "Rust monitor binary (generators, reference models, step bus, recording storage) linked against /repo's crates by path, driven by the python runner /verif/check (watchdog, offline python oracles, known findings, evidence)"},
        ],
        "checks": checks,
        "notes": "Runtime monitoring: every verdict is 'held on the executions produced'. Exit codes: 0 held, 1 violation, 2 inconclusive (never reported as a violation). Seeds via VERIF_SEED. Known findings: /verif/known_findings.jsonl.",
        "not_applicable": na,
    }
    with open(os.path.join(ROOT, "MANIFEST.json"), "w") as f:
        json.dump(m, f, indent=1)
    print(f"{len(checks)} checks, {len(na)} not claimed")


if __name__ == "__main__":
    main()
