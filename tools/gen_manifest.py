#!/usr/bin/python3
"""Regenerates /verif/MANIFEST.json from the table below (development aid)."""
import json, os

ROOT = os.path.dirname(os.path.dirname(os.path.abspath(__file__)))

EXPL = ("Exploration (runtime monitoring): the real code is executed on generated workloads and every "
        "execution is judged by an oracle; the verdict is 'held on the executions produced', with the "
        "coverage classes actually observed written to the evidence file. ")
BUS = ("Trusts the program generator/TransactionBuilder to produce valid transactions, the debugger's "
       "single-stepping as the observation point (each stepped run is paired with a plain run and discarded "
       "if they differ), and the harness transcription of the instruction-set rules.")

CLAIMED = {k: (v["technique"], v["text"], v["note"], v["ref"]) for k, v in json.load(open(os.path.join(ROOT, "tools", "claims.json"))).items()}

NOT_YET = "monitor not built yet in this revision (work in progress; design in DESIGN.md section 4)"

HOOK_COMMITS = ["3b32dc9", "849f252"]


def main():
    props = [json.loads(l) for l in open(os.path.join(ROOT, "properties.jsonl"))]
    checks, na = [], []
    for p in props:
        pid = p["id"]
        if pid in CLAIMED:
            tech, text, note, ref = CLAIMED[pid]
            checks.append({
                "property_id": pid,
                "quick_cmd": f"./check {pid} quick",
                "thorough_cmd": f"./check {pid} thorough",
                "evidence_file": f"/verif/evidence/{pid}.json",
                "replay_cmd_template": f"./check {pid} replay {{path}}",
                "engine": "verif-harness",
                "level_claimed": {"category": "exploration", "text": text, "design_ref": f"DESIGN.md section {ref}"},
                "level_note": note,
                "technique": tech,
            })
        else:
            na.append({"property_id": pid, "reason": NOT_YET})
    m = {
        "version": 1,
        "setup_cmd": "./setup.sh",
        "hooks": {
            "guard": "cargo feature `verif-hooks` (fuel-crypto, fuel-vm), off by default",
            "enable": "the harness (harness/Cargo.toml) depends on /repo's crates by path with features = [\"verif-hooks\"]; every check rebuilds it with `cargo build --offline --profile verif`",
            "baseline_off_cmd": "cd /repo && cargo nextest run --workspace --no-fail-fast --tool-config-file pb:/w/lib/nextest.toml --profile pb --test-threads 8 --offline",
            "source_commits": HOOK_COMMITS,
            "add_only": True,
        },
        "engines": [
            {"name": "verif-harness", "path": "/verif/harness",
             "serves_properties": sorted(CLAIMED.keys()),
             "kind_free_text": "Rust monitor binary (generators, reference models, step bus, recording storage) linked against /repo's crates by path, driven by the python runner /verif/check (watchdog, offline python oracles, known findings, evidence)"},
        ],
        "checks": checks,
        "notes": "Runtime monitoring: every verdict is 'held on the executions produced'. Exit codes: 0 held, 1 violation, 2 inconclusive (never reported as a violation). Seeds via VERIF_SEED. Known findings: /verif/known_findings.jsonl.",
        "not_applicable": na,
    }
    with open(os.path.join(ROOT, "MANIFEST.json"), "w") as f:
        json.dump(m, f, indent=1)
    print(f"{len(checks)} checks, {len(na)} not claimed")


if __name__ == "__main__":
    main()
