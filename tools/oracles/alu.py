"""Offline oracle for C21 (register arithmetic / logic instructions).

Input: the JSON-lines event log written by `monitor C21` (one executed instruction per
line). For every event the specified result is recomputed from (mnemonic, operand values,
immediate, $flag) with Python integers, straight from the mathematical definitions of the
FuelVM instruction set specification:

* `$flag` bit 0x01 = F_UNSAFEMATH, bit 0x02 = F_WRAPPING. An operation that would set
  `$err` panics `ArithmeticError` unless F_UNSAFEMATH; an operation that would set `$of`
  non-zero panics `ArithmeticOverflow` unless F_WRAPPING.
* ADD/SUB/MUL(+I): the result is taken in a 128-bit register whose high half is `$of`
  (SUB underflow: `$of` = 2^64-1 "as though $of is the high half of a 128-bit register").
* DIV/MOD(+I) by zero, MLOG with b = 0 or base <= 1, MROO with index 0: rA = 0, `$err` = 1.
* EXP(I): result not representable in 64 bits: rA = 0, `$of` = 1.
* MLDV: floor(b*c / d) in arbitrary precision, d = 0 divides by 2^64; `$of` = quotient >> 64.
* MLOG = floor(log_c b), MROO = floor(b^(1/c)).
* logic / compare / shift / move ops clear `$of` and `$err`; shifts by >= 64 give 0.
* NIOP (imm06: bits 0..3 op {0 add,1 sub,2 mul,3 exp,4 sll,5 xnor}, bits 4..5 width
  {0: 8, 1: 16, 2: 32}; anything else InvalidImmediateValue): operands are taken modulo
  2^width, result modulo 2^width.
* a reserved destination register (index < 16) panics ReservedRegisterNotWritable.
* success advances `$pc` by 4 and changes no register besides rA, `$of`, `$err`, `$pc`
  (gas registers are not part of this property).

Corners that are *not judged* (counted as `unspecified_*`):
* several panic conditions hold at once (e.g. reserved destination and invalid immediate,
  reserved destination and division by zero): any of the applicable reasons is accepted;
* NIOP add/sub/mul overflowing under F_WRAPPING: `$of` must be non-zero, its exact value
  (bits above the width / all-ones for a borrow, per DESIGN appendix B) is only compared
  and counted, because the specification text for it is not known for sure;
* register contents after a panic other than for reserved destinations.

`check_log(path) -> (violations, counters)`; violation signatures are shape-based:
`C21|<op>|flags=<f>|expected <class>|got <class>[|diff=<fields>]`.
"""
import sys

try:
    from . import evlog
except ImportError:  # run as a script
    import os
    sys.path.insert(0, os.path.dirname(os.path.abspath(__file__)))
    import evlog

M64 = (1 << 64) - 1
M128 = (1 << 128) - 1

NIOP_OPS = ("ADD", "SUB", "MUL", "EXP", "SLL", "XNOR")
NIOP_WIDTHS = (8, 16, 32)

IMM_OPS = {
    "ADDI": "ADD", "SUBI": "SUB", "MULI": "MUL", "DIVI": "DIV", "MODI": "MOD", "EXPI": "EXP",
    "ANDI": "AND", "ORI": "OR", "XORI": "XOR", "SLLI": "SLL", "SRLI": "SRL",
}


def ilog(b, base):
    """largest k with base**k <= b (b >= 1, base >= 2)"""
    k = 0
    p = base
    while p <= b:
        p *= base
        k += 1
    return k


def iroot(b, n):
    """largest r with r**n <= b (n >= 1)"""
    if b < 2 or n == 1:
        return b
    if n >= 64:
        return 1  # 2**64 > b
    r = int(round(b ** (1.0 / n)))
    while r ** n > b:
        r -= 1
    while (r + 1) ** n <= b:
        r += 1
    return r


def power(b, e):
    """b**e, or None when it certainly exceeds 64 bits (avoids astronomically large ints)"""
    if b < 2:
        return 1 if e == 0 else b
    if e >= 64:
        return None
    return b ** e


# result constructors: ("ok", dst, of, err) / ("panic", reason)
def _capture(r, wrapping):
    """128-bit result register: low half -> rA, high half -> $of"""
    if r > M64 and not wrapping:
        return ("panic", "ArithmeticOverflow")
    return ("ok", r & M64, r >> 64, 0)


def _error(unsafe):
    if not unsafe:
        return ("panic", "ArithmeticError")
    return ("ok", 0, 0, 1)


def _bool_overflow(wrapping):
    if not wrapping:
        return ("panic", "ArithmeticOverflow")
    return ("ok", 0, 1, 0)


def binop(op, b, c, unsafe, wrapping):
    if op == "ADD":
        return _capture(b + c, wrapping)
    if op == "SUB":
        return _capture((b - c) & M128, wrapping)
    if op == "MUL":
        return _capture(b * c, wrapping)
    if op == "DIV":
        return _error(unsafe) if c == 0 else ("ok", b // c, 0, 0)
    if op == "MOD":
        return _error(unsafe) if c == 0 else ("ok", b % c, 0, 0)
    if op == "EXP":
        p = power(b, c)
        if p is None or p > M64:
            return _bool_overflow(wrapping)
        return ("ok", p, 0, 0)
    if op == "MLOG":
        if b == 0 or c <= 1:
            return _error(unsafe)
        return ("ok", ilog(b, c), 0, 0)
    if op == "MROO":
        if c == 0:
            return _error(unsafe)
        return ("ok", iroot(b, c), 0, 0)
    if op == "AND":
        return ("ok", b & c, 0, 0)
    if op == "OR":
        return ("ok", b | c, 0, 0)
    if op == "XOR":
        return ("ok", b ^ c, 0, 0)
    if op == "EQ":
        return ("ok", 1 if b == c else 0, 0, 0)
    if op == "GT":
        return ("ok", 1 if b > c else 0, 0, 0)
    if op == "LT":
        return ("ok", 1 if b < c else 0, 0, 0)
    if op == "SLL":
        return ("ok", (b << c) & M64 if c < 64 else 0, 0, 0)
    if op == "SRL":
        return ("ok", b >> c if c < 64 else 0, 0, 0)
    raise KeyError(op)


def niop_decode(imm):
    """-> (op name, width) or None for a reserved encoding"""
    o = imm & 0xF
    w = (imm >> 4) & 3
    if o >= len(NIOP_OPS) or w >= len(NIOP_WIDTHS):
        return None
    return NIOP_OPS[o], NIOP_WIDTHS[w]


def niop(sub, w, b, c, wrapping):
    """-> (result tuple, of_value_unspecified)"""
    mask = (1 << w) - 1
    b &= mask
    c &= mask
    loose = False
    if sub == "ADD":
        r = b + c
        dst, of = r & mask, r >> w
        loose = of != 0
    elif sub == "SUB":
        r = b - c
        dst, of = r & mask, (M64 if r < 0 else 0)
        loose = of != 0
    elif sub == "MUL":
        r = b * c
        dst, of = r & mask, r >> w
        loose = of != 0
    elif sub == "EXP":
        p = power(b, c)
        if p is None or p > mask:
            dst, of = 0, 1
        else:
            dst, of = p, 0
    elif sub == "SLL":
        dst, of = ((b << c) & mask if c < w else 0), 0
    elif sub == "XNOR":
        dst, of = ~(b ^ c) & mask, 0
    else:
        raise KeyError(sub)
    if of != 0 and not wrapping:
        return ("panic", "ArithmeticOverflow"), False
    return ("ok", dst, of, 0), loose


def expected(ev):
    """-> (display op name, arithmetic result tuple, of_value_unspecified)"""
    op = ev["op"]
    f = ev["f"]
    unsafe = f & 1
    wrapping = f & 2
    if op in IMM_OPS:
        return op, binop(IMM_OPS[op], int(ev["b"], 16), ev["imm"], unsafe, wrapping), False
    if op == "NIOP":
        dec = niop_decode(ev["imm"])
        if dec is None:
            return "NIOP.invalid", ("panic", "InvalidImmediateValue"), False
        sub, w = dec
        r, loose = niop(sub, w, int(ev["b"], 16), int(ev["c"], 16), wrapping)
        return "NIOP.%s.u%d" % (sub, w), r, loose
    if op == "MLDV":
        b, c, d = int(ev["b"], 16), int(ev["c"], 16), int(ev["d"], 16)
        p = b * c
        q = (p >> 64) if d == 0 else p // d
        if q > M64 and not wrapping:
            return op, ("panic", "ArithmeticOverflow"), False
        return op, ("ok", q & M64, q >> 64, 0), False
    if op == "NOT":
        return op, ("ok", ~int(ev["b"], 16) & M64, 0, 0), False
    if op == "MOVE":
        return op, ("ok", int(ev["b"], 16), 0, 0), False
    if op == "MOVI":
        return op, ("ok", ev["imm"], 0, 0), False
    if op == "NOOP":
        return op, ("ok", None, 0, 0), False
    return op, binop(op, int(ev["b"], 16), int(ev["c"], 16), unsafe, wrapping), False


def _ok_class(of, err):
    return "ok" + ("+of" if of else "") + ("+err" if err else "")


def _bump(counters, k, n=1):
    counters[k] = counters.get(k, 0) + n


def check_event(ev, counters):
    """-> list of (signature, what) (empty / None when the event conforms)"""
    _bump(counters, "oracle_events")
    try:
        name, exp, loose = expected(ev)
    except (KeyError, ValueError, TypeError) as e:
        _bump(counters, "oracle_malformed_events")
        return [("C21|oracle|malformed event", "cannot evaluate %r: %r" % (ev, e))]
    f = ev["f"]
    res = ev["res"]
    if ":" in res:
        # Rust panic / non-panic error / unexpected state: reported by the monitor itself
        _bump(counters, "oracle_abnormal_outcomes")
        return None
    conds = []
    if ev["op"] != "NOOP" and ev["ra"] < 16:
        conds.append("ReservedRegisterNotWritable")
    if exp[0] == "panic":
        conds.append(exp[1])
    head = "C21|%s|flags=%d|" % (name, f)
    out = []
    if conds:
        want = "panic " + "/".join(conds)
        if res == "ok":
            got = _ok_class(int(ev["of"], 16), int(ev["err"], 16))
            out.append((head + "expected %s|got %s" % (want, got),
                        "%s must panic (%s) but proceeded: %r" % (name, want, ev)))
        elif res not in conds:
            out.append((head + "expected %s|got panic %s" % (want, res),
                        "%s must panic with %s but raised %s: %r" % (name, want, res, ev)))
        else:
            _bump(counters, "oracle_panics_confirmed")
            if len(conds) > 1:
                _bump(counters, "unspecified_panic_priority")
            if ev.get("chg"):
                if "ReservedRegisterNotWritable" in conds:
                    out.append((head + "expected %s and no register change|got panic %s, registers changed" % (want, res),
                                "registers %r changed although the destination is reserved: %r" % (ev["chg"], ev)))
                else:
                    _bump(counters, "unspecified_register_change_after_panic")
        return out
    # must succeed
    _, dst, of, err = exp
    want = _ok_class(of, err)
    if res != "ok":
        out.append((head + "expected %s|got panic %s" % (want, res),
                    "%s must succeed (dst=%s of=%x err=%x) but raised %s: %r"
                    % (name, "-" if dst is None else "%x" % dst, of, err, res, ev)))
        return out
    g_of = int(ev["of"], 16)
    g_err = int(ev["err"], 16)
    diff = []
    if dst is not None and int(ev["dst"], 16) != dst:
        diff.append("dst")
    if loose:
        _bump(counters, "unspecified_niop_of_value")
        if g_of == 0:
            diff.append("of")
        elif g_of != of:
            _bump(counters, "unspecified_niop_of_value_differs_from_appendix_b")
    elif g_of != of:
        diff.append("of")
    if g_err != err:
        diff.append("err")
    if ev["dpc"] != 4:
        diff.append("pc")
    if ev.get("chg"):
        diff.append("other-registers")
    if diff:
        got = _ok_class(g_of, g_err)
        sig = head + "expected %s|got %s|diff=%s" % (want, got, ",".join(diff))
        out.append((sig, "%s: expected dst=%s of=%x err=%x pc+4, observed %r"
                    % (name, "-" if dst is None else "%x" % dst, of, err, ev)))
    else:
        _bump(counters, "oracle_results_confirmed")
    return out


def check_log(path):
    return evlog.run(__name__ if __name__ != "__main__" else "alu", path)


if __name__ == "__main__":
    import json
    tot = {}
    nviol = 0
    for p in sys.argv[1:]:
        v, c = evlog.run("alu", p)
        for k, n in c.items():
            tot[k] = tot.get(k, 0) + n
        for x in v:
            nviol += 1
            print(json.dumps({"signature": x["signature"], "what": x["what"]}))
    print(json.dumps({"violations": nviol, "counters": tot}))
