"""Offline oracle for C22 (128/256-bit wide-integer instructions).

Input: the JSON-lines event log written by `monitor C22` (one executed instruction per
line: register values, `$ssp/$sp/$hp`, the bytes that were in memory at the operand /
destination addresses before the instruction, and the observed outcome). The specified
result is recomputed with Python integers from the FuelVM instruction set specification:

* operands are N = 16 (WD..) or 32 (WQ..) byte big-endian unsigned integers; a non-indirect
  operand is the zero-extended register value.
* imm06 layouts. WxCM: bits 0..2 mode {0 eq, 1 ne, 2 lt, 3 gt, 4 lte, 5 gte, 6 lzc;
  7 reserved}, bits 3..4 reserved (must be 0), bit 5 rhs indirect. WxOP: bits 0..2 op
  {0 add, 1 sub, 2 not, 3 or, 4 xor, 5 and, 6 shl, 7 shr}, bits 3..4 reserved, bit 5 rhs
  indirect. WxML: bits 0..3 reserved, bit 4 lhs indirect, bit 5 rhs indirect. WxDV:
  bits 0..4 reserved, bit 5 rhs indirect. A reserved mode or a set reserved bit panics
  InvalidImmediateValue.
* WxCM: rA = comparison result (0/1) or the number of leading zero bits of lhs; `$of`,
  `$err` cleared. WxOP / WxML: result modulo 2^bits, `$of` = 1 on overflow / borrow
  (panic ArithmeticOverflow unless F_WRAPPING), `$err` = 0; shifts by >= bits give 0.
  WxDV: quotient; divisor 0: result 0 and `$err` = 1 (panic ArithmeticError unless
  F_UNSAFEMATH); `$of` = 0. WxMD: floor(b*c/d), d = 0 divides by 2^bits; a quotient that
  does not fit: `$of` = 1 (panic unless F_WRAPPING) and the low half is stored. WxAM / WxMM:
  (b+c) mod d / (b*c) mod d in arbitrary precision; d = 0: result 0, `$err` = 1 (panic
  unless F_UNSAFEMATH); `$of` = 0.
* an operand range or the destination range reaching beyond VM_MAX_RAM (2^26) panics
  MemoryOverflow; a destination range that is not inside [$ssp,$sp) or [$hp,VM_MAX_RAM)
  (script context) panics MemoryOwnership; a reserved compare destination register panics
  ReservedRegisterNotWritable.
* all operands are read before the destination is written (overlapping ranges).
* success advances `$pc` by 4, changes no other register besides `$of/$err` (and rA for
  compares) and no memory outside the destination range.

Corners that are *not judged* (counted as `unspecified_*`):
* several panic conditions hold at once: any of the applicable reasons is accepted;
* a destination range touching the unallocated gap [$sp,$hp): MemoryOwnership or
  UninitalizedMemoryAccess are both accepted;
* an operand range touching the unallocated gap: not judged at all;
* register / memory contents after a panic (except registers for a reserved destination).

`check_log(path) -> (violations, counters)`; signatures are shape-based:
`C22|<op>|<imm class>|flags=<f>|expected <class>|got <class>[|diff=<fields>]`.
"""
import sys

try:
    from . import evlog
except ImportError:  # run as a script
    import os
    sys.path.insert(0, os.path.dirname(os.path.abspath(__file__)))
    import evlog

VM_MAX_RAM = 1 << 26
M64 = (1 << 64) - 1

CMP_MODES = ("EQ", "NE", "LT", "GT", "LTE", "GTE", "LZC")
MATH_OPS = ("ADD", "SUB", "NOT", "OR", "XOR", "AND", "SHL", "SHR")

FORMS = {
    "WDCM": ("cmp", 16), "WQCM": ("cmp", 32),
    "WDOP": ("op", 16), "WQOP": ("op", 32),
    "WDML": ("mul", 16), "WQML": ("mul", 32),
    "WDDV": ("div", 16), "WQDV": ("div", 32),
    "WDMD": ("muldiv", 16), "WQMD": ("muldiv", 32),
    "WDAM": ("addmod", 16), "WQAM": ("addmod", 32),
    "WDMM": ("mulmod", 16), "WQMM": ("mulmod", 32),
}


def decode_imm(form, imm):
    """-> (imm class, mode/op name or None, lhs indirect, rhs indirect) or None if reserved"""
    ind = bool(imm & 0x20)
    tag = "ind" if ind else "dir"
    if form == "cmp":
        if imm & 0x18 or (imm & 7) >= len(CMP_MODES):
            return None
        m = CMP_MODES[imm & 7]
        return "%s/%s" % (m, tag), m, True, ind
    if form == "op":
        if imm & 0x18:
            return None
        m = MATH_OPS[imm & 7]
        return "%s/%s" % (m, tag), m, True, ind
    if form == "mul":
        if imm & 0x0F:
            return None
        lind = bool(imm & 0x10)
        return "%s-%s" % ("ind" if lind else "dir", tag), None, lind, ind
    if form == "div":
        if imm & 0x1F:
            return None
        return tag, None, True, ind
    return "-", None, True, True


def _bump(counters, k, n=1):
    counters[k] = counters.get(k, 0) + n


def _ok_class(of, err):
    return "ok" + ("+of" if of else "") + ("+err" if err else "")


def compute(form, mode, bits, l, r, t, unsafe, wrapping):
    """-> ("ok", value, of, err) | ("panic", reason); value is the register result for
    compares and the destination integer otherwise"""
    mod = 1 << bits
    if form == "cmp":
        if mode == "EQ":
            v = l == r
        elif mode == "NE":
            v = l != r
        elif mode == "LT":
            v = l < r
        elif mode == "GT":
            v = l > r
        elif mode == "LTE":
            v = l <= r
        elif mode == "GTE":
            v = l >= r
        else:
            return ("ok", bits - l.bit_length(), 0, 0)
        return ("ok", 1 if v else 0, 0, 0)
    if form == "op":
        of = 0
        if mode == "ADD":
            v = l + r
            of = 1 if v >= mod else 0
        elif mode == "SUB":
            v = l - r
            of = 1 if v < 0 else 0
        elif mode == "NOT":
            v = ~l
        elif mode == "OR":
            v = l | r
        elif mode == "XOR":
            v = l ^ r
        elif mode == "AND":
            v = l & r
        elif mode == "SHL":
            v = (l << r) if r < bits else 0
        else:
            v = (l >> r) if r < bits else 0
        if of and not wrapping:
            return ("panic", "ArithmeticOverflow")
        return ("ok", v % mod, of, 0)
    if form == "mul":
        v = l * r
        of = 1 if v >= mod else 0
        if of and not wrapping:
            return ("panic", "ArithmeticOverflow")
        return ("ok", v % mod, of, 0)
    if form == "div":
        if r == 0:
            if not unsafe:
                return ("panic", "ArithmeticError")
            return ("ok", 0, 0, 1)
        return ("ok", l // r, 0, 0)
    if form == "muldiv":
        p = l * r
        q = (p >> bits) if t == 0 else p // t
        of = 1 if q >= mod else 0
        if of and not wrapping:
            return ("panic", "ArithmeticOverflow")
        return ("ok", q % mod, of, 0)
    if form in ("addmod", "mulmod"):
        if t == 0:
            if not unsafe:
                return ("panic", "ArithmeticError")
            return ("ok", 0, 0, 1)
        return ("ok", ((l + r) if form == "addmod" else (l * r)) % t, 0, 0)
    raise KeyError(form)


def check_event(ev, counters):
    _bump(counters, "oracle_events")
    try:
        return _check(ev, counters)
    except (KeyError, ValueError, TypeError) as e:
        _bump(counters, "oracle_malformed_events")
        return [("C22|oracle|malformed event", "cannot evaluate %r: %r" % (ev, e))]


def _check(ev, counters):
    op = ev["op"]
    form, n = FORMS[op]
    bits = 8 * n
    f = ev["f"]
    unsafe = f & 1
    wrapping = f & 2
    res = ev["res"]
    if ":" in res:
        # Rust panic / non-panic error / unexpected state: reported by the monitor itself
        _bump(counters, "oracle_abnormal_outcomes")
        return None
    a = int(ev["a"], 16)
    sp = int(ev["sp"], 16)
    ssp = int(ev["ssp"], 16)
    hp = int(ev["hp"], 16)

    conds = []
    gap_read = False
    values = {}
    dec = decode_imm(form, ev.get("imm", 0))
    if dec is None:
        icls = "invalid"
        conds.append("InvalidImmediateValue")
        mode = None
    else:
        icls, mode, lind, rind = dec
        # operands
        plan = [("l", "b", "mb", lind), ("r", "c", "mc", rind)]
        if form in ("muldiv", "addmod", "mulmod"):
            plan.append(("t", "d", "md", True))
        for key, reg, mem, indirect in plan:
            x = int(ev[reg], 16)
            if not indirect:
                values[key] = x
                continue
            if x + n > VM_MAX_RAM:
                if "MemoryOverflow" not in conds:
                    conds.append("MemoryOverflow")
                continue
            if x + n > sp and x < hp:
                gap_read = True
                continue
            m = ev.get(mem)
            if m is None:
                gap_read = True  # outside the tracked memory: cannot evaluate
                continue
            values[key] = int(m, 16)
    head = "C22|%s|%s|flags=%d|" % (op, icls, f)
    if gap_read:
        _bump(counters, "unspecified_operand_in_unallocated_memory")
        return None

    # destination
    gap_write = False
    if form == "cmp":
        if ev["ra"] < 16:
            conds.append("ReservedRegisterNotWritable")
    else:
        if a + n > VM_MAX_RAM:
            if "MemoryOverflow" not in conds:
                conds.append("MemoryOverflow")
        else:
            owned = (ssp <= a and a + n <= sp) or (hp < VM_MAX_RAM and hp <= a)
            if not owned:
                conds.append("MemoryOwnership")
                if a + n > sp and a < hp:
                    gap_write = True
                    conds.append("UninitalizedMemoryAccess")

    # arithmetic
    exp = None
    need = 3 if form in ("muldiv", "addmod", "mulmod") else 2
    if dec is not None and len(values) == need:
        exp = compute(form, mode, bits, values["l"], values["r"], values.get("t"), unsafe, wrapping)
        if exp[0] == "panic":
            conds.append(exp[1])

    out = []
    if conds:
        want = "panic " + "/".join(conds)
        if res == "ok":
            got = _ok_class(int(ev["of"], 16), int(ev["err"], 16))
            out.append((head + "expected %s|got %s" % (want, got),
                        "%s must panic (%s) but proceeded: %r" % (op, want, ev)))
        elif res not in conds:
            out.append((head + "expected %s|got panic %s" % (want, res),
                        "%s must panic with %s but raised %s: %r" % (op, want, res, ev)))
        else:
            _bump(counters, "oracle_panics_confirmed")
            if gap_write:
                _bump(counters, "unspecified_destination_in_unallocated_memory")
            elif len(conds) > 1:
                _bump(counters, "unspecified_panic_priority")
            if ev.get("chg"):
                if "ReservedRegisterNotWritable" in conds:
                    out.append((head + "expected %s and no register change|got panic %s, registers changed" % (want, res),
                                "registers %r changed although the destination is reserved: %r" % (ev["chg"], ev)))
                else:
                    _bump(counters, "unspecified_register_change_after_panic")
            if ev.get("memchg") or ("out" in ev and ev.get("out") != ev.get("ma")):
                _bump(counters, "unspecified_memory_change_after_panic")
        return out

    # must succeed
    _, val, of, err = exp
    want = _ok_class(of, err)
    if res != "ok":
        out.append((head + "expected %s|got panic %s" % (want, res),
                    "%s must succeed (result=%x of=%x err=%x) but raised %s: %r" % (op, val, of, err, res, ev)))
        return out
    g_of = int(ev["of"], 16)
    g_err = int(ev["err"], 16)
    diff = []
    if form == "cmp":
        if int(ev["dst"], 16) != val:
            diff.append("dst")
    else:
        o = ev.get("out")
        if o is None or len(o) != 2 * n or int(o, 16) != val:
            diff.append("mem")
    if g_of != of:
        diff.append("of")
    if g_err != err:
        diff.append("err")
    if ev["dpc"] != 4:
        diff.append("pc")
    if ev.get("chg"):
        diff.append("other-registers")
    if ev.get("memchg"):
        diff.append("other-memory")
    if diff:
        got = _ok_class(g_of, g_err)
        out.append((head + "expected %s|got %s|diff=%s" % (want, got, ",".join(diff)),
                    "%s: expected result=%x of=%x err=%x pc+4, observed %r" % (op, val, of, err, ev)))
    else:
        _bump(counters, "oracle_results_confirmed")
    return out


def check_log(path):
    return evlog.run(__name__ if __name__ != "__main__" else "wideint", path)


if __name__ == "__main__":
    import json
    tot = {}
    nviol = 0
    for p in sys.argv[1:]:
        v, c = evlog.run("wideint", p)
        for k, n in c.items():
            tot[k] = tot.get(k, 0) + n
        for x in v:
            nviol += 1
            print(json.dumps({"signature": x["signature"], "what": x["what"]}))
    print(json.dumps({"violations": nviol, "counters": tot}))
