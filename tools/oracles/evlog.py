"""Shared plumbing for the offline event-log oracles (alu.py, wideint.py).

`run(module_name, path)` reads a JSON-lines event log, hands every event to
`module.check_event(ev, counters) -> [(signature, what), ...] | None` and returns
`(violations, counters)`; a violation is `{"signature", "what", "replay": <the event>}`.
Large logs are split at line boundaries and processed by a process pool.
stdlib only.
"""
import importlib
import json
import os

# logs below this size are checked in-process
INLINE_BYTES = 24 << 20
# violations kept (with their replay record) per signature: per chunk, and per process over
# all logs of a run (the runner calls check_log once per worker log); every violating event
# is still counted in `oracle_violating_events`
MAX_PER_SIGNATURE = 3
_KEPT = {}


def _chunks(path, n):
    size = os.path.getsize(path)
    if n <= 1 or size == 0:
        return [(0, size)]
    cuts = [0]
    with open(path, "rb") as f:
        for i in range(1, n):
            pos = size * i // n
            if pos <= cuts[-1]:
                continue
            f.seek(pos)
            f.readline()  # advance to the next line start
            p = f.tell()
            if cuts[-1] < p < size:
                cuts.append(p)
    cuts.append(size)
    return [(cuts[i], cuts[i + 1]) for i in range(len(cuts) - 1)]


def check_range(module_name, path, start, end):
    mod = importlib.import_module(module_name)
    check_event = mod.check_event
    loads = json.loads
    counters = {}
    violations = []
    per_sig = {}
    with open(path, "rb") as f:
        f.seek(start)
        pos = start
        for line in f:
            if pos >= end:
                break
            pos += len(line)
            if len(line) < 3:
                continue
            try:
                ev = loads(line)
            except ValueError:
                counters["oracle_unparsable_lines"] = counters.get("oracle_unparsable_lines", 0) + 1
                continue
            vs = check_event(ev, counters)
            if vs:
                for sig, what in vs:
                    n = per_sig.get(sig, 0) + 1
                    per_sig[sig] = n
                    if n <= MAX_PER_SIGNATURE:
                        violations.append({"signature": sig, "what": what, "replay": ev})
    for sig, n in per_sig.items():
        counters["oracle_violating_events"] = counters.get("oracle_violating_events", 0) + n
    return violations, counters, per_sig


def _work(args):
    return check_range(*args)


def run(module_name, path, nproc=None):
    size = os.path.getsize(path)
    if nproc is None:
        nproc = min(os.cpu_count() or 1, 16)
    if size <= INLINE_BYTES or nproc <= 1:
        parts = [check_range(module_name, path, 0, size)]
    else:
        import multiprocessing as mp
        jobs = [(module_name, path, a, b) for a, b in _chunks(path, nproc * 2)]
        with mp.get_context("fork").Pool(nproc) as pool:
            parts = pool.map(_work, jobs)
    violations, counters = [], {}
    for vs, cs, _ in parts:
        for k, n in cs.items():
            counters[k] = counters.get(k, 0) + n
        for v in vs:
            key = (module_name, v["signature"])
            n = _KEPT.get(key, 0) + 1
            _KEPT[key] = n
            if n <= MAX_PER_SIGNATURE:
                violations.append(v)
    return violations, counters
