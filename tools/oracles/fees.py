"""Offline oracle for C18 (fee and refund arithmetic), stdlib only, Python integers.

Input: the event log written by harness/src/mon/c18.rs, one JSON object per line:

  {"k":"tx","id":N,"kind":K,"hex":H}            transaction the following cases refer to
  {"k":"c","tx":N,"kind":K,"sched":S,"gc":..,   one case; every number is a decimal string,
   "price","factor","gpb","tip","wl","limit",    an absent policy is null
   "min_gas","max_gas","min_fee","max_fee",
   "refunds":[[used,refund|null],..],
   "checked":null|[min_fee,max_fee,min_gas,max_gas]}

Statement evaluated per case (M = 2^64-1, ceil = exact ceiling division, tip = 0 if absent):

  min_gas <= max_gas;  min_fee <= max_fee
  min_fee == ceil(min_gas*price/factor) + tip;  max_fee == ceil(max_gas*price/factor) + tip
      (gas = the amount the library reports; the gas schedule is not recomputed)
  for every used gas u:  fee(u) = ceil(min(M, min_gas+u)*price/factor) + tip
      refund(u) == limit - fee(u)   if fee(u) <= limit   (then fee(u) fits u64 as limit does)
      refund(u) is None             otherwise
      refund(u) <= limit
  refund non-increasing in u (a None after a Some is fine, a Some after a None is not)
  checked_from_tx is None iff max_fee (or min_fee) does not fit u64, otherwise it carries
      exactly (min_fee, max_fee, min_gas, max_gas)

Not judged (counted as unspecified_*): the refund *value* and the bound when the max-fee policy
is absent (the statement speaks of "the fee limit").

`check_log(path) -> (violations, counters)`; a violation is {"signature","what","replay"} with
replay = {"mode":"arith","tx":<tx line>,"case":<case line>}.
"""
import json
import os
import sys

M = (1 << 64) - 1
MAX_PER_SIG = 3
PAR_THRESHOLD = 24 << 20  # bytes; larger logs are split over processes
# violations already returned per signature by this process (a run has one log per worker;
# the totals are in the `occurrences:<signature>` counters)
_RETURNED = {}


def ceil_div(a, b):
    return -((-a) // b)


def regime_of(sat, fee, limit):
    if fee > M:
        r = "feeovf"
    elif fee > limit:
        r = "underflow"
    else:
        r = "none"
    if sat:
        return "satgas" if r == "none" else "satgas+" + r
    return r


def judge(c, out, counters):
    """Evaluate one case line; `out(sig, what)` records a violation."""
    kind = c["kind"]
    price = int(c["price"])
    factor = int(c["factor"])
    if factor < 1:
        counters["skipped_factor_0"] = counters.get("skipped_factor_0", 0) + 1
        return
    tip = int(c["tip"]) if c["tip"] is not None else 0
    limit_set = c["limit"] is not None
    limit = int(c["limit"]) if limit_set else 0
    min_gas = int(c["min_gas"])
    max_gas = int(c["max_gas"])
    min_fee = int(c["min_fee"])
    max_fee = int(c["max_fee"])
    counters["cases"] = counters.get("cases", 0) + 1

    if min_gas > max_gas:
        out("C18|min_gas>max_gas|kind=%s" % kind, "min_gas %d > max_gas %d" % (min_gas, max_gas))
    if min_fee > max_fee:
        out("C18|min_fee>max_fee|kind=%s" % kind, "min_fee %d > max_fee %d" % (min_fee, max_fee))
    if not (0 <= min_gas <= M and 0 <= max_gas <= M):
        out("C18|gas outside u64|kind=%s" % kind, "min_gas %d max_gas %d" % (min_gas, max_gas))

    want_min = ceil_div(min_gas * price, factor) + tip
    want_max = ceil_div(max_gas * price, factor) + tip
    if min_fee != want_min:
        out("C18|min_fee!=ceil(gas*price/factor)+tip|kind=%s" % kind,
            "min_fee %d, expected ceil(%d*%d/%d)+%d = %d" % (min_fee, min_gas, price, factor, tip, want_min))
    if max_fee != want_max:
        out("C18|max_fee!=ceil(gas*price/factor)+tip|kind=%s" % kind,
            "max_fee %d, expected ceil(%d*%d/%d)+%d = %d" % (max_fee, max_gas, price, factor, tip, want_max))

    prev_u = None
    prev_r = None
    for u_s, r_s in c["refunds"]:
        u = int(u_s)
        r = int(r_s) if r_s is not None else None
        total = min_gas + u
        sat = total > M
        gas = M if sat else total
        fee = ceil_div(gas * price, factor) + tip
        rg = regime_of(sat, fee, limit)
        k = "regime_" + rg
        counters[k] = counters.get(k, 0) + 1
        ctx = "used_gas %d, min_gas %d, price %d, factor %d, tip %d, limit %s, used fee %d" % (
            u, min_gas, price, factor, tip, limit if limit_set else "unset", fee)
        if limit_set:
            if fee <= limit:
                want = limit - fee
                if r is None:
                    out("C18|refund_fee|expected Some|got None|regime=%s" % rg,
                        "refund_fee returned None, expected Some(%d); %s" % (want, ctx))
                elif r != want:
                    out("C18|refund_fee|wrong value|regime=%s" % rg,
                        "refund_fee returned Some(%d), expected Some(%d) (difference %d); %s" % (r, want, r - want, ctx))
            elif r is not None:
                out("C18|refund_fee|expected None|got Some|regime=%s" % rg,
                    "refund_fee returned Some(%d) although the used fee exceeds the limit; %s" % (r, ctx))
            if r is not None and r > limit:
                out("C18|refund_fee|refund>limit|regime=%s" % rg, "refund %d > limit %d; %s" % (r, limit, ctx))
        else:
            counters["unspecified_refund_with_absent_fee_limit"] = counters.get(
                "unspecified_refund_with_absent_fee_limit", 0) + 1
        if prev_u is not None:
            if u <= prev_u:
                counters["used_gas_not_increasing(ignored)"] = counters.get("used_gas_not_increasing(ignored)", 0) + 1
            else:
                counters["monotonicity_pairs"] = counters.get("monotonicity_pairs", 0) + 1
                if r is not None and prev_r is not None and r > prev_r:
                    out("C18|refund_fee|refund increases with used gas|kind=%s" % kind,
                        "refund(%d) = %d > refund(%d) = %d; %s" % (u, r, prev_u, prev_r, ctx))
                elif r is not None and prev_r is None:
                    out("C18|refund_fee|None then Some as used gas grows|kind=%s" % kind,
                        "refund(%d) = None but refund(%d) = %d; %s" % (prev_u, u, r, ctx))
        prev_u, prev_r = u, r

    chk = c["checked"]
    if min_fee <= max_fee:
        overflow = max_fee > M or min_fee > M
        if overflow:
            counters["checked_overflow"] = counters.get("checked_overflow", 0) + 1
            if chk is not None:
                out("C18|checked_from_tx|expected None|got Some|kind=%s" % kind,
                    "checked_from_tx returned %s although max_fee %d does not fit u64" % (chk, max_fee))
        else:
            if chk is None:
                out("C18|checked_from_tx|expected Some|got None|kind=%s" % kind,
                    "checked_from_tx returned None although min_fee %d <= max_fee %d fit u64" % (min_fee, max_fee))
            else:
                got = [int(x) for x in chk]
                if got != [min_fee, max_fee, min_gas, max_gas]:
                    out("C18|checked_from_tx|fields differ from min_fee/max_fee/min_gas/max_gas|kind=%s" % kind,
                        "checked_from_tx %s vs %s" % (got, [min_fee, max_fee, min_gas, max_gas]))


def _scan(path, start, end):
    """Judge the case lines whose first byte lies in [start, end)."""
    counters = {}
    found = []  # (sig, what, case, txid)
    per_sig = {}
    with open(path, "rb") as f:
        if start > 0:
            f.seek(start - 1)
            if f.read(1) != b"\n":
                f.readline()  # partial line belongs to the previous range
        pos = f.tell()
        while pos < end:
            line = f.readline()
            if not line:
                break
            pos += len(line)
            if line.startswith(b'{"k":"tx"'):
                counters["tx_lines"] = counters.get("tx_lines", 0) + 1
                continue
            if not line.strip():
                continue
            try:
                c = json.loads(line)
            except ValueError:
                counters["unparsable_lines"] = counters.get("unparsable_lines", 0) + 1
                continue
            if c.get("k") != "c":
                continue

            def out(sig, what, c=c):
                n = per_sig.get(sig, 0) + 1
                per_sig[sig] = n
                if n <= MAX_PER_SIG:
                    found.append((sig, what, c, c.get("tx")))

            try:
                judge(c, out, counters)
            except (KeyError, TypeError, ValueError) as e:
                counters["malformed_cases"] = counters.get("malformed_cases", 0) + 1
                found.append(("C18|oracle|malformed event line", "%r in %s" % (e, line[:300]), c, c.get("tx")))
    return found, per_sig, counters


def _scan_star(a):
    return _scan(*a)


def _tx_lines(path, ids):
    """Second pass (only when something was found): fetch the needed tx lines."""
    want = set(ids)
    got = {}
    if not want:
        return got
    with open(path, "rb") as f:
        for line in f:
            if line.startswith(b'{"k":"tx"'):
                try:
                    t = json.loads(line)
                except ValueError:
                    continue
                if t.get("id") in want:
                    got[t["id"]] = t
                    if len(got) == len(want):
                        break
    return got


def check_log(path):
    size = os.path.getsize(path)
    parts = []
    if size > PAR_THRESHOLD:
        try:
            import multiprocessing as mp
            n = max(1, min(mp.cpu_count(), 32, size // (4 << 20)))
            step = size // n + 1
            ranges = [(path, i * step, min(size, (i + 1) * step)) for i in range(n)]
            with mp.get_context("fork").Pool(n) as pool:
                parts = pool.map(_scan_star, ranges)
        except Exception:  # noqa  (fall back to the sequential scan)
            parts = []
    if not parts:
        parts = [_scan(path, 0, size)]
    counters = {}
    per_sig = {}
    found = []
    for fnd, ps, cn in parts:
        found += fnd
        for k, v in ps.items():
            per_sig[k] = per_sig.get(k, 0) + v
        for k, v in cn.items():
            counters[k] = counters.get(k, 0) + v
    kept = {}
    sel = []
    for sig, what, c, txid in found:
        if kept.get(sig, 0) < MAX_PER_SIG and _RETURNED.get(sig, 0) < MAX_PER_SIG:
            kept[sig] = kept.get(sig, 0) + 1
            _RETURNED[sig] = _RETURNED.get(sig, 0) + 1
            sel.append((sig, what, c, txid))
    txs = _tx_lines(path, [t for _, _, _, t in sel])
    violations = []
    for sig, what, c, txid in sel:
        n = per_sig.get(sig, 1)
        violations.append({
            "signature": sig,
            "what": "%s: %s [%d occurrence(s) in %s]" % (c.get("kind"), what, n, os.path.basename(path)),
            "replay": {"mode": "arith", "tx": txs.get(txid), "case": c},
        })
    for sig, n in per_sig.items():
        counters["occurrences:" + sig] = n
    return violations, counters


if __name__ == "__main__":
    import time
    t0 = time.time()
    tot = {}
    allv = []
    for p in sys.argv[1:]:
        v, c = check_log(p)
        allv += v
        for k, n in c.items():
            tot[k] = tot.get(k, 0) + n
    print(json.dumps({"violations": [(v["signature"], v["what"]) for v in allv][:40],
                      "n_violations": len(allv), "counters": tot,
                      "wall_s": round(time.time() - t0, 2)}, indent=1))
