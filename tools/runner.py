"""Runner: build + run + watchdog + verdict + evidence + known findings (DESIGN.md 2)."""
import json, os, subprocess, sys, time, fcntl, shutil, importlib

ROOT = os.path.dirname(os.path.dirname(os.path.abspath(__file__)))
HARNESS = os.path.join(ROOT, "harness")
TARGET = os.path.join(HARNESS, "target")
WORK = os.path.join(ROOT, "work")
REPLAYS = os.path.join(ROOT, "replays")
EVIDENCE = os.path.join(ROOT, "evidence")
KNOWN = os.path.join(ROOT, "known_findings.jsonl")

ENV = dict(os.environ)
ENV.setdefault("CARGO_NET_OFFLINE", "true")
ENV["CARGO_TERM_COLOR"] = "never"

# quick-tier budget multipliers for monitors whose default quick budget is too slow for
# an every-change check (gates are still met at these scales)
QUICK_SCALE = {"C13": 0.35, "C14": 0.5, "C33": 0.6}
# thorough tier: optional multiples of the monitors' built-in thorough budgets (none set: the
# built-in budgets are the ones every property was swept with; the watchdog is 3600 s and a
# check cut by it is INCONCLUSIVE, never a violation)
THOROUGH_SCALE = {}

QUICK_WATCHDOG_S = 900
THOROUGH_WATCHDOG_S = 3600

# properties whose monitor writes event logs judged by an offline python oracle
ORACLES = {"alu": "oracles.alu", "wideint": "oracles.wideint", "fees": "oracles.fees"}


def log(*a):
    print(*a, flush=True)


def build(profile="verif", extra_env=None):
    """(Re)build the harness against /repo's current working tree. Returns (ok, text)."""
    os.makedirs(WORK, exist_ok=True)
    lock = open(os.path.join(WORK, ".build.lock"), "w")
    fcntl.flock(lock, fcntl.LOCK_EX)
    try:
        env = dict(ENV)
        if extra_env:
            env.update(extra_env)
        t0 = time.time()
        p = subprocess.run(
            ["cargo", "build", "--offline", "--profile", profile, "--bin", "monitor"],
            cwd=HARNESS, env=env, stdout=subprocess.PIPE, stderr=subprocess.STDOUT, text=True)
        return p.returncode == 0, p.stdout[-6000:], time.time() - t0
    finally:
        fcntl.flock(lock, fcntl.LOCK_UN)
        lock.close()


def monitor_bin(profile="verif"):
    return os.path.join(TARGET, profile, "monitor")


def load_known():
    known, fixed = {}, {}
    if os.path.exists(KNOWN):
        for line in open(KNOWN):
            line = line.strip()
            if not line or line.startswith("#"):
                continue
            e = json.loads(line)
            if e.get("status") == "known":
                known[(e["property"], e["signature"])] = e
            elif e.get("status") == "fixed":
                fixed[(e["property"], e["signature"])] = e
    return known, fixed


def run_monitor(prop, tier, seed, extra=None, profile="verif", watchdog=None, tag=""):
    """Run the monitor binary; returns (report dict | None, reason)."""
    os.makedirs(WORK, exist_ok=True)
    out = os.path.join(WORK, f"{prop}.{tier}.{seed}{tag}.report.json")
    if os.path.exists(out):
        os.remove(out)
    cmd = [monitor_bin(profile), prop, "--tier", tier, "--seed", str(seed), "--out", out,
           "--work", WORK]
    if extra:
        cmd += extra
    wd = watchdog or (THOROUGH_WATCHDOG_S if tier == "thorough" else QUICK_WATCHDOG_S)
    try:
        p = subprocess.run(cmd, cwd=ROOT, env=ENV, stdout=subprocess.PIPE,
                           stderr=subprocess.STDOUT, text=True, timeout=wd)
    except subprocess.TimeoutExpired:
        return None, f"watchdog {wd}s fired"
    if p.returncode != 0 or not os.path.exists(out):
        tail = (p.stdout or "")[-1500:].replace("\n", " | ")
        return None, f"monitor exited {p.returncode}: {tail}"
    try:
        return json.load(open(out)), ""
    except Exception as e:  # noqa
        return None, f"unreadable report: {e}"


def run_oracles(report):
    """Offline oracles over event logs; returns list of extra violations + counters."""
    extra, counters = [], {}
    for el in report.get("event_logs", []):
        modname = ORACLES.get(el["oracle"])
        if not modname:
            continue
        mod = importlib.import_module(modname)
        v, c = mod.check_log(el["path"])
        extra += v
        for k, n in c.items():
            counters[k] = counters.get(k, 0) + n
        try:
            os.remove(el["path"])
        except OSError:
            pass
    return extra, counters


def verdict_and_evidence(prop, tier, seed, report, reason, t0, stages, replay_mode=False):
    known, fixed = load_known()
    os.makedirs(EVIDENCE, exist_ok=True)
    os.makedirs(REPLAYS, exist_ok=True)
    violations = []
    known_hits = {}
    inconclusive = reason or None
    if report is not None:
        if report.get("inconclusive") and not inconclusive:
            inconclusive = report["inconclusive"]
        for v in report.get("violations", []):
            key = (prop, v["signature"])
            if key in known:
                known_hits[v["signature"]] = known[key]
            else:
                violations.append(v)
        for g in report.get("gates", []):
            if g["observed"] < g["required"] and not replay_mode:
                inconclusive = inconclusive or (
                    f"coverage gate {g['name']}: observed {g['observed']} < required {g['required']}")
    # output
    for sig, e in sorted(known_hits.items()):
        n = (report or {}).get("violation_counts", {}).get(sig, 1)
        log(f"KNOWN-FINDING: property={prop} {e.get('what', sig)} [signature={sig}] (seen {n}x)")
    replay_paths = []
    for i, v in enumerate(violations):
        path = os.path.join(REPLAYS, f"{prop}-{tier}-{seed}-{i}.json")
        with open(path, "w") as f:
            json.dump({"property": prop, "signature": v["signature"], "what": v["what"],
                       "seed": seed, "tier": tier, "replay": v["replay"]}, f, indent=1)
        replay_paths.append(path)
        log(f"VIOLATION property={prop} replay={path}")
        log(f"  signature: {v['signature']}")
        log(f"  observed:  {v['what'][:300]}")
    wall = time.time() - t0
    if not replay_mode:
        cov = {
            "evaluations": int((report or {}).get("evaluations", 0)),
            "distinct_nontrivial": int((report or {}).get("distinct_classes", 0)),
            "rule": (report or {}).get("rule", ""),
            "samples": (report or {}).get("samples", []),
            "exhaustive": bool((report or {}).get("exhaustive", False)),
            "counters": (report or {}).get("counters", {}),
            "classes_seen": (report or {}).get("classes", [])[:400],
            "gates": (report or {}).get("gates", []),
            "notes": (report or {}).get("notes", []),
            "known_findings_hit": sorted(known_hits.keys()),
            "violation_signatures": sorted({v["signature"] for v in violations}),
            "stages": stages,
            "verdict": "violated" if violations else ("inconclusive" if inconclusive else "held"),
        }
        if inconclusive:
            cov["inconclusive_reason"] = inconclusive
        ev = {
            "property_id": prop, "tier": tier, "seed": int(seed), "level": "exploration",
            "coverage": cov,
            "assumptions": (report or {}).get("assumptions", []),
            "wall_s": round(wall, 3),
            "violations": len(violations),
        }
        with open(os.path.join(EVIDENCE, f"{prop}.json"), "w") as f:
            json.dump(ev, f, indent=1)
    if violations:
        return 1
    if inconclusive:
        log(f"INCONCLUSIVE property={prop} reason={inconclusive}")
        return 2
    ev_n = (report or {}).get("evaluations", 0)
    cl_n = (report or {}).get("distinct_classes", 0)
    log(f"HELD property={prop} tier={tier} seed={seed} evaluations={ev_n} classes={cl_n} "
        f"known_findings={len(known_hits)} wall={wall:.1f}s")
    return 0


def merge_reports(a, b):
    """Merge report b (dict) into a."""
    if a is None:
        return b
    if b is None:
        return a
    a["evaluations"] = a.get("evaluations", 0) + b.get("evaluations", 0)
    cl = set(a.get("classes", [])) | set(b.get("classes", []))
    a["classes"] = sorted(cl)
    a["distinct_classes"] = max(len(cl), a.get("distinct_classes", 0), b.get("distinct_classes", 0))
    a["samples"] = (a.get("samples", []) + b.get("samples", []))[:8]
    for k, v in b.get("counters", {}).items():
        a.setdefault("counters", {})
        if k.startswith("max_"):
            a["counters"][k] = max(a["counters"].get(k, 0), v)
        else:
            a["counters"][k] = a["counters"].get(k, 0) + v
    a["violations"] = a.get("violations", []) + b.get("violations", [])
    for k, v in b.get("violation_counts", {}).items():
        a.setdefault("violation_counts", {})
        a["violation_counts"][k] = a["violation_counts"].get(k, 0) + v
    for k in ("notes", "assumptions"):
        for n in b.get(k, []):
            if n not in a.setdefault(k, []):
                a[k].append(n)
    a["gates"] = a.get("gates", []) + b.get("gates", [])
    a["event_logs"] = a.get("event_logs", []) + b.get("event_logs", [])
    if not a.get("inconclusive"):
        a["inconclusive"] = b.get("inconclusive")
    return a


def main(argv):
    if not argv:
        print(__doc__)
        return 3
    if argv[0] == "build":
        ok, text, dt = build()
        log(text[-2000:])
        log(f"build {'ok' if ok else 'FAILED'} in {dt:.0f}s")
        return 0 if ok else 2
    prop = argv[0]
    mode = argv[1] if len(argv) > 1 else os.environ.get("VERIF_TIER", "quick")
    seed = int(os.environ.get("VERIF_SEED", "0") or 0)
    extra = []
    i = 2
    replay_file = None
    if mode == "replay":
        replay_file = argv[2]
        i = 3
    while i < len(argv):
        if argv[i] == "--seed":
            seed = int(argv[i + 1]); i += 2
        elif argv[i] == "--scale":
            extra += ["--scale", argv[i + 1]]; i += 2
        elif argv[i] == "--threads":
            extra += ["--threads", argv[i + 1]]; i += 2
        elif argv[i] == "--opt":
            extra += ["--opt", argv[i + 1]]; i += 2
        else:
            log(f"unknown argument {argv[i]}"); return 3
    t0 = time.time()
    stages = []
    ok, text, dt = build()
    stages.append({"stage": "build(verif profile: release+debug-assertions+overflow-checks)",
                   "ok": ok, "wall_s": round(dt, 1)})
    if not ok:
        log(text[-3000:])
        return verdict_and_evidence(prop, mode if mode != "replay" else "quick", seed, None,
                                    "harness build failed against the current /repo tree", t0, stages)
    if mode == "replay":
        report, reason = run_monitor(prop, "quick", seed, ["--replay", replay_file] + extra, tag=".replay")
        if report is not None:
            ex, c = run_oracles(report)
            report["violations"] += ex
            log(json.dumps({"evaluations": report.get("evaluations"),
                            "violations": [(v["signature"], v["what"][:300]) for v in report["violations"]],
                            "notes": report.get("notes")}, indent=1))
        return verdict_and_evidence(prop, "quick", seed, report, reason, t0, stages, replay_mode=True)
    tier = mode
    if tier not in ("quick", "thorough"):
        log(f"unknown mode {tier}")
        return 3
    if tier == "quick" and prop in QUICK_SCALE and "--scale" not in extra:
        extra = extra + ["--scale", str(QUICK_SCALE[prop])]
    if tier == "thorough" and prop in THOROUGH_SCALE and "--scale" not in extra:
        extra = extra + ["--scale", str(THOROUGH_SCALE[prop])]
    report, reason = run_monitor(prop, tier, seed, extra)
    stages.append({"stage": "monitor", "ok": report is not None,
                   "wall_s": round((report or {}).get("monitor_wall_s", 0), 1)})
    if report is not None:
        ts = time.time()
        ex, c = run_oracles(report)
        if report.get("event_logs"):
            stages.append({"stage": "offline python oracle", "events": c, "wall_s": round(time.time() - ts, 1)})
        for v in ex:
            report["violations"].append(v)
            vc = report.setdefault("violation_counts", {})
            vc[v["signature"]] = vc.get(v["signature"], 0) + 1
        for k, n in c.items():
            report.setdefault("counters", {})[k] = n
    # sanitizer stages (thorough tier, and a small one in quick where cheap)
    if report is not None and not reason:
        try:
            import sanitizers
            report, reason2 = sanitizers.extra_stages(prop, tier, seed, report, stages)
            reason = reason or reason2
        except ImportError:
            pass
    return verdict_and_evidence(prop, tier, seed, report, reason, t0, stages)
